#!/bin/bash
# usage: tools/seedrun.sh <worktree-with-change-applied> <outdir> <check> [<check> ...]
# Runs the given quick checks against a scratch worktree (VERIF_REPO) with evidence/replays redirected (VERIF_OUT).
wt=$1; out=$2; shift 2
mkdir -p "$out"
for c in "$@"; do
  ( cd /verif && VERIF_REPO=$wt VERIF_OUT=$out timeout 1800 ./vcheck $c quick > "$out/$c.log" 2>&1; echo "exit=$?" >> "$out/$c.log" )
  printf "%s: %s, %s VIOLATION lines\n" "$c" "$(tail -1 $out/$c.log)" "$(grep -c '^VIOLATION' $out/$c.log)"
done
