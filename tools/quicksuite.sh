#!/bin/bash
# runs every quick check once on /repo's working tree; prints exit code, wall time and the summary line
cd /verif
for c in C01 C02 C03 C04 C05 C06 C07 C08 C09 C10 C11 C12 C13 C14 C15 C16 C17 C18 C19 C20; do
  s=$(date +%s); timeout 3000 ./vcheck $c quick > /tmp/q-$c.log 2>&1; rc=$?
  echo "$c rc=$rc wall=$(( $(date +%s)-s ))s $(grep -a "quick:" /tmp/q-$c.log | tail -1 | cut -c1-120)"
done
