#!/bin/bash
# runs every thorough check once (two at a time) from the directory it is started in; prints exit code, wall time, summary
export VERIF_ROOT=${VERIF_ROOT:-$PWD}
export GOFLAGS=-mod=mod GOPROXY=off GOWORK=off
[ -x ./vcheck ] || go build -o vcheck ./cmd/vcheck || exit 2
mkdir -p "${VERIF_OUT:-$VERIF_ROOT}/thlogs"
run() { c=$1; s=$(date +%s); timeout 14400 ./vcheck $c thorough > "${VERIF_OUT:-$VERIF_ROOT}/thlogs/$c.log" 2>&1; rc=$?
  echo "$c rc=$rc wall=$(( $(date +%s)-s ))s $(grep -a "thorough:" "${VERIF_OUT:-$VERIF_ROOT}/thlogs/$c.log" | tail -1 | cut -c1-140)"; }
( for c in C18 C20 C14 C10 C19 C04 C16 C02 C06 C12 C07 C11; do run $c; done ) &
( for c in C13 C08 C09 C01 C03 C15 C05 C17; do run $c; done ) &
wait
