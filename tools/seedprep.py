#!/usr/bin/env python3
# usage: seedprep.py <round-number> [Cnn ...]   - creates /tmp/w<r>-Cnn worktrees of /repo HEAD and /tmp/seed<r>/Cnn/prompt.txt
import json,os,re,glob,subprocess,sys
r=sys.argv[1]
EXTRA=("This time the change should be one of the harder kinds: (a) TWO cooperating edits at different sites that each look harmless alone (e.g. a producer and a consumer that now disagree about a convention, a cache plus a missing invalidation, an index shifted in one place and compensated wrongly in another), or (b) something that only manifests after a multi-step sequence of calls / a particular combination of command-line flags / a particular interleaving of goroutines, or (c) a corner of the input space that is easy to overlook. "
 "Assume the harness you are testing enumerates SMALL grammars and SHORT inputs exhaustively and also tries a menu of unusual characters, long lexemes, deep nesting, big example grammars, reused objects and all flag combinations: prefer a change whose manifestation depends on a combination or a size that such an enumeration is unlikely to contain (a number crossing a threshold, a rarely combined pair of grammar features, a particular order of declarations, a name or literal with a particular relationship to another one, state that survives between calls or between parts of one run), while still being something a real user could hit. "
 "Finally: if, while exploring, you notice that the UNCHANGED tree already violates the property for some input (or crashes, or emits code that does not compile), do not use that as your seed, but describe it precisely (grammar, input, command, observed output) in notes.md under a heading 'Side observations on the unchanged tree'.")
props={}
for l in open('/verif/properties.jsonl'):
    p=json.loads(l); props[p['id']]=p
tmpl=open('/verif/tools/seedprompt.tmpl').read()
only=set(sys.argv[2:])
for cid,p in props.items():
    if only and cid not in only: continue
    prev=[]
    for d in sorted(glob.glob('/verif/seeded/*')):
        b=os.path.basename(d)
        if not re.search(r'(^|-|/)'+cid+r'(-|/|$)',b): continue
        files=re.findall(r'^diff --git a/(\S+)',open(d+'/patch.diff').read(),re.M) if os.path.exists(d+'/patch.diff') else []
        name=re.sub(r'^(R\d-)?(C\d\d[-/]?)+','',b)
        prev.append(f"{name} ({', '.join(files)})")
    wt=f'/tmp/w{r}-{cid}'; out=f'/tmp/seed{r}/{cid}'
    block=f"{cid} — {p['title']}\n\n{p['statement']}\n\nQuantified over: {p['quantifier']['text']}\n"
    t=tmpl.replace('{WT}',wt).replace('{OUT}',out).replace('{PROPERTY}',block.rstrip('\n')).replace('{PREV}',' ; '.join(prev)).replace('{EXTRA}',EXTRA)
    os.makedirs(out,exist_ok=True)
    open(out+'/prompt.txt','w').write(t)
    subprocess.run(['git','-C','/repo','worktree','add','-q','--detach',wt,'HEAD'],check=True)
print('prepared round',r)
