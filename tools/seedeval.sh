#!/bin/bash
# usage: tools/seedeval.sh <seed-id> <srcdir-with-patch.diff> <check> [<check>...]
# Confirms a seeded change independently (compiles, repository tests still pass, demo fails with / passes without),
# runs the given quick checks against a scratch worktree carrying the change, records everything in
# /verif/seeded/<seed-id>/ (patch.diff, demo, meta.json), removes the scratch worktree.
set -u
id=$1; src=$2; shift 2
export GOFLAGS=-mod=mod GOPROXY=off
dst=/verif/seeded/$id; mkdir -p $dst
cp -r $src/patch.diff $dst/ 2>/dev/null
for f in demo.sh notes.md witness g.bnf main.go grammar.bnf demo; do [ -e $src/$f ] && cp -r $src/$f $dst/ ; done
wt=/tmp/ev-$id; base=/tmp/ev-$id-base
git -C /repo worktree remove --force $wt 2>/dev/null; rm -rf $wt $base
git -C /repo worktree add -q $wt HEAD
mkdir -p $base && git -C /repo archive HEAD | tar -x -C $base
demo_base=skip; demo_changed=skip
if [ -x $src/demo.sh ]; then ( cd $src && timeout 900 ./demo.sh $base >$dst/demo-base.log 2>&1 ); demo_base=$?; fi
if ! git -C $wt apply $dst/patch.diff; then echo "PATCH DOES NOT APPLY"; exit 1; fi
( cd $wt && go build ./... ) >$dst/build.log 2>&1; build=$?
( cd $wt && go test -vet=off -count=1 ./... 2>&1 | grep -v "no test files" ) >$dst/tests.log 2>&1
ok=$(grep -c "^ok" $dst/tests.log); fails=$(grep "^FAIL\s" $dst/tests.log | grep -v "internal/test/t2" | wc -l)
if [ -x $src/demo.sh ]; then ( cd $src && timeout 900 ./demo.sh $wt >$dst/demo-changed.log 2>&1 ); demo_changed=$?; fi
echo "build=$build tests_ok_pkgs=$ok other_fails=$fails demo_base=$demo_base demo_changed=$demo_changed"
out=/tmp/ev-$id-out; rm -rf $out
res=""
for c in "$@"; do
  ( cd /verif && VERIF_REPO=$wt VERIF_OUT=$out timeout 3000 ./vcheck $c quick > $dst/check-$c.log 2>&1; echo "exit=$?" >> $dst/check-$c.log )
  ex=$(tail -1 $dst/check-$c.log); nv=$(grep -c '^VIOLATION' $dst/check-$c.log)
  echo "  $c: $ex violations=$nv  $(grep -A1 '^VIOLATION' $dst/check-$c.log | sed -n 2p | cut -c1-220)"
  res="$res\"$c\":{\"$ex\",\"violation_lines\":$nv},"
done
python3 - "$id" "$build" "$ok" "$fails" "$demo_base" "$demo_changed" "$*" <<'PY'
import json,sys,os,re
id,build,ok,fails,db,dc,checks=sys.argv[1:8]
dst='/verif/seeded/'+id
meta_path=dst+'/meta.json'
meta=json.load(open(meta_path)) if os.path.exists(meta_path) else {}
meta.update({"id":id,"compiles":build=="0","repo_test_packages_ok":int(ok),"repo_test_failures_other_than_t2":int(fails),
 "demo_exit_on_unchanged_tree":db,"demo_exit_on_changed_tree":dc})
runs=meta.setdefault("checks_run",{})
for c in checks.split():
    log=open('%s/check-%s.log'%(dst,c)).read()
    runs[c]={"exit":int(re.findall(r'exit=(\d+)',log)[-1]),"violation_lines":log.count('\nVIOLATION')+(1 if log.startswith('VIOLATION') else 0),
             "first_violation":(re.findall(r'VIOLATION[^\n]*\n([^\n]*)',log) or [''])[0][:400],"how":"VERIF_REPO=<scratch worktree with patch applied> ./vcheck %s quick"%c}
json.dump(meta,open(meta_path,'w'),indent=1)
PY
git -C /repo worktree remove --force $wt; rm -rf $base $out
