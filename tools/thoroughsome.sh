#!/bin/bash
# usage: tools/thoroughsome.sh Cnn...  - the given thorough checks, two at a time, from the current directory
export VERIF_ROOT=${VERIF_ROOT:-$PWD}
export GOFLAGS=-mod=mod GOPROXY=off GOWORK=off
[ -x ./vcheck ] || go build -o vcheck ./cmd/vcheck || exit 2
out="${VERIF_OUT:-$VERIF_ROOT}/thlogs"; mkdir -p "$out"
run() { c=$1; s=$(date +%s); timeout 14400 ./vcheck $c thorough > "$out/$c.log" 2>&1; rc=$?
  echo "$c rc=$rc wall=$(( $(date +%s)-s ))s $(grep -a "thorough:" "$out/$c.log" | tail -1 | cut -c1-140)"; }
a=(); b=(); i=0; for c in "$@"; do if (( i % 2 == 0 )); then a+=($c); else b+=($c); fi; i=$((i+1)); done
( for c in "${a[@]}"; do run $c; done ) &
( for c in "${b[@]}"; do run $c; done ) &
wait
