// Package corp builds the layer-B corpus: real gocc output for a selection of grammars, compiled unmodified
// by the Go toolchain together with adapters and one driver binary.
package corp

import (
	"bytes"
	"crypto/sha256"
	"encoding/hex"
	"encoding/json"
	"fmt"
	"os"
	"os/exec"
	"path/filepath"
	"regexp"
	"strings"
	"sync"
	"text/template"
	"time"

	"verif/ev"
	"verif/gen"
	"verif/gram"
)

// Item is one grammar (+ flags) of the corpus.
type Item struct {
	ID     string        `json:"id"`
	Fam    string        `json:"fam"`
	G      *gram.Grammar `json:"g"`
	Text   string        `json:"text"`  // exact text given to gocc
	Flags  []string      `json:"flags"` // without -o
	TokImp bool          `json:"-"`     // header must import the token package ($T used)
	RtImp  bool          `json:"-"`     // header must import verif/rt (actions call rt.A)
	// filled by Build
	Exit       int               `json:"exit"`
	Stdout     string            `json:"stdout"`
	GenOK      bool              `json:"gen_ok"`
	HasLexer   bool              `json:"has_lexer"`
	HasParser  bool              `json:"has_parser"`
	Lex        *gen.LexTables    `json:"lex,omitempty"`
	Tok        *gen.TokenMap     `json:"tok,omitempty"`
	Par        *gen.ParserTables `json:"par,omitempty"`
	ReadErr    string            `json:"read_err,omitempty"`
	CompileErr string            `json:"compile_err,omitempty"` // first compiler message when the generated code does not build
	Extra      map[string]any    `json:"extra,omitempty"`
}

// NewTextItem is an item given as raw grammar text (hostile spellings); reference models that need the AST do not apply.
func NewTextItem(fam, text string, flags ...string) *Item {
	h := sha256.Sum256([]byte(text + "\x00" + strings.Join(flags, " ")))
	return &Item{ID: "g" + hex.EncodeToString(h[:7]), Fam: fam, Text: text, Flags: flags}
}

// NewItem derives a stable id from the grammar (without header) and flags.
func NewItem(fam string, g *gram.Grammar, flags ...string) *Item {
	h := sha256.Sum256([]byte(g.Text() + "\x00" + strings.Join(flags, " ")))
	return &Item{ID: "g" + hex.EncodeToString(h[:7]), Fam: fam, G: g, Flags: flags}
}

// Corpus is a built scratch module.
type Corpus struct {
	// OnStderr, if set, receives each shard's stderr (used for race-detector reports).
	OnStderr func(shard int, text string)
	ExtraEnv []string
	Root     string
	Items    []*Item
	// Dropped: items generated with exit status 0 whose packages do not compile (excluded from the driver)
	Dropped []*Item
	Bin     string
	tools   *gen.Tools
	Pkgs    int
	clean   func()
}

func (c *Corpus) Close() { c.clean() }

func pkgPath(id string) string { return "vt/g/" + id + "/o" }

// Build generates all items with the real generator (in-process pool, cross-checked against the CLI), adds
// adapters, and compiles one driver binary. Items whose generation fails are kept with GenOK=false.
func Build(t *gen.Tools, pool *gen.Pool, tag string, items []*Item) (*Corpus, error) {
	return BuildOpt(t, pool, tag, items, false)
}

// BuildOpt is Build with the option of compiling the driver with the race detector.
func BuildOpt(t *gen.Tools, pool *gen.Pool, tag string, items []*Item, race bool) (*Corpus, error) {
	root, cleanup := gen.Scratch(tag)
	c := &Corpus{Root: root, tools: t, clean: cleanup}
	mod := "module vt\n\ngo 1.24\n\nrequire verif v0.0.0\n\nreplace verif => " + ev.Root + "\n"
	os.WriteFile(filepath.Join(root, "go.mod"), []byte(mod), 0o666)
	seen := map[string]bool{}
	for _, it := range items {
		if !seen[it.ID] {
			seen[it.ID] = true
			c.Items = append(c.Items, it)
		}
	}
	at := template.Must(template.New("a").Parse(adapterTmpl))
	var mu sync.Mutex
	var firstErr error
	gen.ParallelFor(len(c.Items), 0, func(i int) {
		it := c.Items[i]
		dir := filepath.Join(root, "g", it.ID)
		os.MkdirAll(dir, 0o777)
		if it.G != nil {
			g := *it.G
			if it.RtImp || it.TokImp {
				imp := "import (\n\t\"verif/rt\"\n"
				if it.TokImp {
					imp += "\t\"" + pkgPath(it.ID) + "/token\"\n"
				}
				g.Header = imp + ")"
			}
			it.Text = g.Text()
		}
		os.WriteFile(filepath.Join(dir, "g.bnf"), []byte(it.Text), 0o666)
		args := append(append([]string{}, it.Flags...), "-o", "o", "g.bnf")
		res := pool.Run(gen.Job{Dir: dir, Args: args})
		it.Exit, it.Stdout = res.Exit, res.Stdout
		if res.Hang || res.Exit != 0 {
			os.RemoveAll(filepath.Join(dir, "o"))
			return
		}
		od := filepath.Join(dir, "o")
		_, e1 := os.Stat(filepath.Join(od, "lexer", "lexer.go"))
		_, e2 := os.Stat(filepath.Join(od, "parser", "parser.go"))
		it.HasLexer, it.HasParser = e1 == nil, e2 == nil
		var err error
		if it.Tok, err = gen.ReadTokenMap(od); err != nil {
			it.ReadErr = err.Error()
		}
		if it.HasLexer && it.ReadErr == "" {
			if it.Lex, err = gen.ReadLexTables(od); err != nil {
				it.ReadErr = err.Error()
			}
		}
		if it.HasParser && it.ReadErr == "" {
			if it.Par, err = gen.ReadParserTables(od); err != nil {
				it.ReadErr = err.Error()
			}
		}
		it.GenOK = true
		if it.HasParser {
			os.WriteFile(filepath.Join(od, "parser", "zz_verif_export.go"), []byte(exportTmpl), 0o666)
		}
		var buf bytes.Buffer
		if err := at.Execute(&buf, map[string]any{"ID": it.ID, "Pkg": pkgPath(it.ID), "HasLexer": it.HasLexer, "HasParser": it.HasParser}); err != nil {
			mu.Lock()
			firstErr = err
			mu.Unlock()
			return
		}
		os.MkdirAll(filepath.Join(dir, "zz"), 0o777)
		os.WriteFile(filepath.Join(dir, "zz", "adapter.go"), buf.Bytes(), 0o666)
		// util is not imported by non-debug output: drop it to save compile time (its content is covered by C20)
		if !contains(it.Flags, "-debug_lexer") {
			os.RemoveAll(filepath.Join(od, "util"))
		}
	})
	if firstErr != nil {
		return c, firstErr
	}
	// compile; items whose generated code does not compile are dropped (reported in CompileErr, they are C09's
	// subject) and the rest is built again, so that one broken output does not take the whole corpus down
	reFail := regexp.MustCompile(`(?m)^(?:# vt/)?g/(g[0-9a-f]+)/`)
	troubles := 0
	for round := 0; ; round++ {
		var pkgs []string
		for _, it := range c.Items {
			if it.GenOK {
				pkgs = append(pkgs, "vt/g/"+it.ID)
			}
		}
		c.Pkgs = len(pkgs)
		var buf bytes.Buffer
		template.Must(template.New("m").Parse(mainTmpl)).Execute(&buf, pkgs)
		os.MkdirAll(filepath.Join(root, "drv"), 0o777)
		os.WriteFile(filepath.Join(root, "drv", "main.go"), buf.Bytes(), 0o666)
		c.Bin = filepath.Join(root, "drv.bin")
		args := []string{"build", "-trimpath", "-o", c.Bin}
		if race {
			args = append(args, "-race")
		}
		cmd := exec.Command("go", append(args, "./drv")...)
		cmd.Dir = root
		cmd.Env = gen.GoEnv()
		out, err := cmd.CombinedOutput()
		if err == nil {
			break
		}
		if gen.ToolchainTrouble(string(out)) {
			// the build environment, not the generated code: try again, then give up as a harness error
			if troubles++; troubles > 3 {
				return c, fmt.Errorf("corpus build fails for reasons of the build environment: %v\n%s", err, clip(string(out), 3000))
			}
			time.Sleep(5 * time.Second)
			round--
			continue
		}
		failed := map[string]bool{}
		for _, m := range reFail.FindAllStringSubmatch(string(out), -1) {
			failed[m[1]] = true
		}
		if len(failed) == 0 || round >= 4 {
			return c, fmt.Errorf("corpus does not compile: %v\n%s", err, clip(string(out), 6000))
		}
		for _, it := range c.Items {
			if failed[it.ID] && it.GenOK {
				it.GenOK = false
				it.CompileErr = firstLineWith(string(out), "g/"+it.ID+"/")
				c.Dropped = append(c.Dropped, it)
			}
		}
	}
	return c, nil
}

func contains(a []string, s string) bool {
	for _, x := range a {
		if x == s {
			return true
		}
	}
	return false
}

func clip(s string, n int) string {
	if len(s) > n {
		return s[:n] + "..."
	}
	return s
}

// Spec is what the driver reads.
type Spec struct {
	Task  string         `json:"task"`
	N     int            `json:"n"`
	Opt   map[string]any `json:"opt,omitempty"`
	Items []*Item        `json:"items"`
}

// Run executes the driver over all generated items in nshards sub-processes and returns the JSON lines they print.
func (c *Corpus) Run(task string, n int, opt map[string]any, nshards int, each func(line []byte)) error {
	var ok []*Item
	for _, it := range c.Items {
		if it.GenOK {
			ok = append(ok, it)
		}
	}
	spec := Spec{Task: task, N: n, Opt: opt, Items: ok}
	b, _ := json.Marshal(spec)
	sf := filepath.Join(c.Root, "spec-"+task+".json")
	os.WriteFile(sf, b, 0o666)
	var mu sync.Mutex
	var firstErr error
	var wg sync.WaitGroup
	for s := 0; s < nshards; s++ {
		wg.Add(1)
		go func(s int) {
			defer wg.Done()
			cmd := exec.Command("/bin/sh", "-c", fmt.Sprintf("ulimit -v %d; exec \"$0\" \"$@\"", 8*1024*1024), c.Bin, sf, fmt.Sprint(s), fmt.Sprint(nshards))
			if len(c.ExtraEnv) > 0 {
				// the race detector reserves a huge virtual address range: no ulimit -v
				cmd = exec.Command(c.Bin, sf, fmt.Sprint(s), fmt.Sprint(nshards))
			}
			cmd.Env = append(append(os.Environ(), "GOMAXPROCS=2"), c.ExtraEnv...)
			var out, errb bytes.Buffer
			cmd.Stdout, cmd.Stderr = &out, &errb
			err := cmd.Run()
			mu.Lock()
			defer mu.Unlock()
			if c.OnStderr != nil && errb.Len() > 0 {
				c.OnStderr(s, errb.String())
			}
			for _, l := range bytes.Split(out.Bytes(), []byte("\n")) {
				if len(bytes.TrimSpace(l)) > 0 {
					each(l)
				}
			}
			if err != nil && firstErr == nil {
				firstErr = &CrashError{Shard: s, Err: err, Stderr: errb.String()}
			}
		}(s)
	}
	wg.Wait()
	return firstErr
}

// CrashError: a driver shard died. Item is the grammar it was exploring (from the VERIF-BEGIN marker); InGenerated
// reports whether the fatal error's stack passes through a generated package of that item.
type CrashError struct {
	Shard  int
	Err    error
	Stderr string
}

func (e *CrashError) Item() string {
	i := strings.LastIndex(e.Stderr, "VERIF-BEGIN ")
	if i < 0 {
		return ""
	}
	rest := e.Stderr[i+len("VERIF-BEGIN "):]
	if j := strings.IndexByte(rest, '\n'); j >= 0 {
		rest = rest[:j]
	}
	return strings.TrimSpace(rest)
}

func (e *CrashError) InGenerated() bool {
	id := e.Item()
	return id != "" && strings.Contains(e.Stderr, "vt/g/"+id+"/o/")
}

func (e *CrashError) Summary() string {
	s := e.Stderr
	if i := strings.Index(s, "fatal error:"); i >= 0 {
		s = s[i:]
	} else if i := strings.Index(s, "panic:"); i >= 0 {
		s = s[i:]
	}
	return clip(s, 1500)
}

func (e *CrashError) Error() string {
	return fmt.Sprintf("driver shard %d: %v (item %s): %s", e.Shard, e.Err, e.Item(), e.Summary())
}

func firstLineWith(text, sub string) string {
	for _, l := range strings.Split(text, "\n") {
		if strings.Contains(l, sub) && !strings.HasPrefix(l, "#") {
			return l
		}
	}
	return ""
}
