//go:build verif

package main

import (
	"encoding/json"
	"fmt"

	"github.com/goccmack/gocc/internal/util"
)

func init() {
	subcommands["c20"] = func(args []string) {
		out := c20run(util.LitToRune, util.IntValue, util.UintValue)
		b, _ := json.Marshal(out)
		fmt.Println(string(b))
	}
}
