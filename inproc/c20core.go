//go:build verif

package main

// C20 core: complete enumeration of the valid rune-literal space against strconv.UnquoteChar, plus
// decimal literals against strconv.ParseInt/ParseUint. This file has no gocc import: it is compiled both
// into the in-process harness (subject: gocc's own util.LitToRune) and, copied, into a scratch program
// next to the util package EMITTED by a real gocc run (subject: util.RuneValue).

import (
	"fmt"
	"strconv"
	"unicode/utf8"
)

type c20viol struct {
	Kind string `json:"kind"`
	Lit  string `json:"lit"`
	Want string `json:"want"`
	Got  string `json:"got"`
}

type c20out struct {
	RuneLits      int            `json:"rune_literals"`
	ByKind        map[string]int `json:"by_kind"`
	DistinctRunes int            `json:"distinct_code_points"`
	IntLits       int            `json:"int_literals"`
	IntOK         int            `json:"int_literals_valid"`
	IntErr        int            `json:"int_literals_rejected"`
	Violations    []c20viol      `json:"violations"`
	NViol         int            `json:"n_violations"`
	Samples       []string       `json:"samples"`
}

func c20run(runeValue func([]byte) rune, intValue func([]byte) (int64, error), uintValue func([]byte) (uint64, error)) *c20out {
	out := &c20out{ByKind: map[string]int{}}
	viol := func(kind, lit, want, got string) {
		out.NViol++
		if len(out.Violations) < 20 {
			out.Violations = append(out.Violations, c20viol{kind, lit, want, got})
		}
	}
	try := func(kind, lit string, cp rune) {
		out.RuneLits++
		out.ByKind[kind]++
		// oracle: Go's own reading of the literal
		v, _, tail, err := strconv.UnquoteChar(lit[1:], '\'')
		if err != nil || tail != "'" || v != cp {
			viol("enumerator-"+kind, lit, fmt.Sprint(cp), fmt.Sprint(v, tail, err))
			return
		}
		var got rune
		var pan any
		func() {
			defer func() { pan = recover() }()
			got = runeValue([]byte(lit))
		}()
		if pan != nil {
			viol(kind, lit, fmt.Sprintf("%#x", cp), "panic: "+fmt.Sprint(pan))
		} else if got != v {
			viol(kind, lit, fmt.Sprintf("%#x", cp), fmt.Sprintf("%#x", got))
		}
		if out.RuneLits%400003 == 1 {
			out.Samples = append(out.Samples, strconv.QuoteToASCII(lit))
		}
	}
	for cp := rune(0); cp <= 0x10FFFF; cp++ {
		if cp >= 0xD800 && cp < 0xE000 {
			continue
		}
		out.DistinctRunes++
		if cp != '\n' && cp != '\'' && cp != '\\' {
			var b [4]byte
			n := utf8.EncodeRune(b[:], cp)
			try(fmt.Sprintf("raw%d", n), "'"+string(b[:n])+"'", cp)
		}
		try("U-lower", fmt.Sprintf(`'\U%08x'`, cp), cp)
		try("U-upper", fmt.Sprintf(`'\U%08X'`, cp), cp)
		if cp <= 0xFFFF {
			try("u-lower", fmt.Sprintf(`'\u%04x'`, cp), cp)
			try("u-upper", fmt.Sprintf(`'\u%04X'`, cp), cp)
		}
		if cp <= 0xFF {
			try("x-lower", fmt.Sprintf(`'\x%02x'`, cp), cp)
			try("x-upper", fmt.Sprintf(`'\x%02X'`, cp), cp)
			try("octal", fmt.Sprintf(`'\%03o'`, cp), cp)
		}
	}
	for _, n := range []struct {
		lit string
		cp  rune
	}{{`'\a'`, 7}, {`'\b'`, 8}, {`'\f'`, 12}, {`'\n'`, 10}, {`'\r'`, 13}, {`'\t'`, 9}, {`'\v'`, 11}, {`'\\'`, '\\'}, {`'\''`, '\''}} {
		try("named", n.lit, n.cp)
	}
	// decimal literals
	var lits []string
	alpha := "0123456789+-"
	var rec func(p string, d int)
	rec = func(p string, d int) {
		if p != "" {
			lits = append(lits, p)
		}
		if d == 0 {
			return
		}
		for i := 0; i < len(alpha); i++ {
			rec(p+string(alpha[i]), d-1)
		}
	}
	rec("", 4)
	for _, base := range []string{"9223372036854775807", "9223372036854775808", "18446744073709551615", "18446744073709551616", "4294967295", "2147483648", "99999999999999999999", "000000000000000000001"} {
		for _, sign := range []string{"", "-", "+"} {
			lits = append(lits, sign+base)
			// neighbours: last digit varied
			for d := byte('0'); d <= '9'; d++ {
				lits = append(lits, sign+base[:len(base)-1]+string(d))
			}
		}
	}
	for _, l := range lits {
		out.IntLits++
		wi, werr := strconv.ParseInt(l, 10, 64)
		var gi int64
		var gerr error
		var pan any
		func() {
			defer func() { pan = recover() }()
			gi, gerr = intValue([]byte(l))
		}()
		if pan != nil || gi != wi || fmt.Sprint(gerr) != fmt.Sprint(werr) {
			viol("int", l, fmt.Sprint(wi, werr), fmt.Sprint(gi, gerr, pan))
		}
		wu, werr2 := strconv.ParseUint(l, 10, 64)
		var gu uint64
		func() {
			defer func() { pan = recover() }()
			gu, gerr = uintValue([]byte(l))
		}()
		if pan != nil || gu != wu || fmt.Sprint(gerr) != fmt.Sprint(werr2) {
			viol("uint", l, fmt.Sprint(wu, werr2), fmt.Sprint(gu, gerr, pan))
		}
		if werr == nil || werr2 == nil {
			out.IntOK++
		} else {
			out.IntErr++
		}
	}
	return out
}
