//go:build verif

package main

// In-process harness, compiled INTO gocc's own main package through go build -overlay
// (this file appears as /repo/zz_verif_server.go; /repo itself is never written).
// main() dispatches: "serve" runs generator jobs (the real goccMain) read from stdin;
// other sub-commands are in-process explorers over gocc's internal packages.

import (
	"bufio"
	"encoding/json"
	"flag"
	"fmt"
	"os"
	"runtime/debug"
)

type verifExit int

type job struct {
	ID   int               `json:"id"`
	Dir  string            `json:"dir"`
	Args []string          `json:"args"`
	Env  map[string]string `json:"env"`
}

type jobResult struct {
	ID     int    `json:"id"`
	Exit   int    `json:"exit"`
	Stdout []byte `json:"stdout"` // base64 in JSON: output may contain ill-formed UTF-8
	Stderr []byte `json:"stderr"`
	Panic  string `json:"panic,omitempty"`
}

func main() {
	if len(os.Args) < 2 {
		fmt.Fprintln(os.Stderr, "usage: gocc-batch serve|c15|c18|c20 ...")
		os.Exit(2)
	}
	switch os.Args[1] {
	case "serve":
		serve()
	default:
		if f, ok := subcommands[os.Args[1]]; ok {
			f(os.Args[2:])
			return
		}
		fmt.Fprintln(os.Stderr, "unknown sub-command", os.Args[1])
		os.Exit(2)
	}
}

var subcommands = map[string]func([]string){}

func serve() {
	realOut := os.Stdout
	realErr := os.Stderr
	in := bufio.NewReaderSize(os.Stdin, 1<<20)
	out := bufio.NewWriter(realOut)
	for {
		line, err := in.ReadBytes('\n')
		if len(line) > 0 {
			var j job
			if e := json.Unmarshal(line, &j); e != nil {
				fmt.Fprintln(realErr, "bad job:", e)
				os.Exit(2)
			}
			r := runJob(j)
			b, _ := json.Marshal(r)
			out.Write(b)
			out.WriteByte('\n')
			out.Flush()
		}
		if err != nil {
			return
		}
	}
}

func runJob(j job) (res jobResult) {
	res.ID = j.ID
	if err := os.Chdir(j.Dir); err != nil {
		res.Exit, res.Panic = 99, "chdir: "+err.Error()
		return
	}
	so, _ := os.CreateTemp(j.Dir, ".verif-stdout-*")
	se, _ := os.CreateTemp(j.Dir, ".verif-stderr-*")
	oldOut, oldErr, oldArgs := os.Stdout, os.Stderr, os.Args
	os.Stdout, os.Stderr = so, se
	os.Args = append([]string{"gocc"}, j.Args...)
	for k, v := range j.Env {
		old, had := os.LookupEnv(k)
		os.Setenv(k, v)
		defer func(k, old string, had bool) {
			if had {
				os.Setenv(k, old)
			} else {
				os.Unsetenv(k)
			}
		}(k, old, had)
	}
	flag.CommandLine = flag.NewFlagSet(os.Args[0], flag.ContinueOnError)
	flag.CommandLine.SetOutput(se)
	defer func() {
		if r := recover(); r != nil {
			if x, ok := r.(verifExit); ok {
				res.Exit = int(x)
			} else {
				// an uncaught panic makes the real CLI exit with status 2
				res.Exit = 2
				res.Panic = fmt.Sprint(r)
				fmt.Fprintf(se, "panic: %v\n%s", r, debug.Stack())
			}
		}
		os.Stdout, os.Stderr, os.Args = oldOut, oldErr, oldArgs
		res.Stdout = slurp(so)
		res.Stderr = slurp(se)
	}()
	goccMain()
	return
}

func slurp(f *os.File) []byte {
	if f == nil {
		return nil
	}
	name := f.Name()
	f.Close()
	b, _ := os.ReadFile(name)
	os.Remove(name)
	if len(b) > 1<<16 {
		b = b[:1<<16]
	}
	return b
}
