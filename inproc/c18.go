//go:build verif

package main

// C18: explicit-state search over the real DisjunctRangeSet.
// A state is the List() content; successors are obtained by replaying the shortest operation path on a
// fresh object and applying one more AddRange (live objects are never cloned). BFS to closure.

import (
	"encoding/json"
	"fmt"
	"os"
	"strconv"

	"github.com/goccmack/gocc/internal/ast"
	"github.com/goccmack/gocc/internal/frontend/token"
	"github.com/goccmack/gocc/internal/lexer/items"
)

// c18op: one operation on the range set. Via "raw" calls AddRange(F,T) directly; "node" goes through AddLexTNode with
// the AST node a grammar would produce (a character literal when F == T and Lit is set, else a character range -
// including one-rune ranges such as 'c'-'c'); runes are offset to letters for the node forms.
type c18op struct {
	F, T rune
	Via  string
}

func c18apply(s *items.DisjunctRangeSet, o c18op) {
	if o.Via == "" || o.Via == "raw" {
		s.AddRange(o.F, o.T)
		return
	}
	lit := func(r rune) *token.Token {
		return &token.Token{Type: token.FRONTENDTokens.Type("char_lit"), Lit: []byte("'" + string('a'+r) + "'")}
	}
	var n ast.LexTNode
	if o.Via == "lit" {
		n, _ = ast.NewLexCharLit(lit(o.F))
	} else {
		n, _ = ast.NewLexCharRange(lit(o.F), lit(o.T))
	}
	s.AddLexTNode(n)
}

// c18norm maps the classes of a set built through nodes (letters) back to the small universe.
func c18norm(l []items.CharRange, via bool) []items.CharRange {
	out := append([]items.CharRange(nil), l...)
	if via {
		for i := range out {
			out[i].From -= 'a'
			out[i].To -= 'a'
		}
	}
	return out
}

type c18out struct {
	States               int       `json:"states"`
	StatesViaNodes       int       `json:"states_via_nodes"`
	LargeSetTransitions  int       `json:"large_set_transitions"`
	SizeSweepTransitions int       `json:"size_sweep_transitions"`
	Transitions          int       `json:"transitions"`
	MaxDepth             int       `json:"max_depth"`
	Universe             int       `json:"universe"`
	Violations           []c18viol `json:"violations"`
	Samples              []c18viol `json:"samples"`
	Replayed             int       `json:"replayed"`
	NoopChecked          int       `json:"noop_checked"`
}

type c18viol struct {
	Msg  string  `json:"msg"`
	Path []c18op `json:"path"`
	Op   c18op   `json:"op"`
	Old  string  `json:"old"`
	New  string  `json:"new"`
	K    int     `json:"universe,omitempty"` // universe the case needs when it is larger than the BFS universe
}

func c18build(path []c18op) *items.DisjunctRangeSet {
	s := items.NewDisjunctRangeSet()
	for _, o := range path {
		c18apply(s, o)
	}
	return s
}

func c18cover(l []items.CharRange, K rune) []bool {
	c := make([]bool, K+1)
	for _, r := range l {
		for x := r.From; x <= r.To; x++ {
			if x >= 0 && x <= K {
				c[x] = true
			}
		}
	}
	return c
}

// c18isUnion: [f,t] is exactly a union of classes of l
func c18isUnion(l []items.CharRange, f, t rune) bool {
	x := f
	for _, r := range l {
		if r.To < f || r.From > t {
			continue
		}
		if r.From != x || r.To > t {
			return false
		}
		x = r.To + 1
	}
	return x == t+1
}

// c18check applies op o after path and returns a description of the first invariant broken ("" if none).
func c18check(path []c18op, o c18op, K rune) (msg string, old, nl []items.CharRange) {
	via := o.Via != "" && o.Via != "raw"
	old = c18norm(c18build(path).List(), via)
	s := c18build(path)
	func() {
		defer func() {
			if r := recover(); r != nil {
				msg = fmt.Sprint("panic: ", r)
			}
		}()
		c18apply(s, o)
	}()
	nl = c18norm(s.List(), via)
	if msg != "" {
		return
	}
	for i, r := range nl {
		if r.From > r.To {
			return "empty class", old, nl
		}
		if i > 0 && nl[i-1].To >= r.From {
			return "classes unsorted or overlapping", old, nl
		}
		if r.From < 0 || r.To > K {
			return "class outside the added ranges", old, nl
		}
	}
	oc, nc := c18cover(old, K), c18cover(nl, K)
	for x := rune(0); x <= K; x++ {
		want := oc[x] || (o.F <= x && x <= o.T)
		if nc[x] != want {
			return fmt.Sprintf("union wrong at %d", x), old, nl
		}
	}
	for _, r := range old {
		if !c18isUnion(nl, r.From, r.To) {
			return "an earlier class is no longer a union of classes", old, nl
		}
	}
	if o.F <= o.T && !c18isUnion(nl, o.F, o.T) {
		return "added range is not a union of classes", old, nl
	}
	if o.F > o.T && fmt.Sprint(old) != fmt.Sprint(nl) {
		return "empty interval changed the set", old, nl
	}
	return "", old, nl
}

func init() {
	subcommands["c18"] = func(args []string) {
		K := rune(7)
		if len(args) > 0 {
			if args[0] == "replay" {
				var v c18viol
				json.Unmarshal([]byte(args[1]), &v)
				k, _ := strconv.Atoi(args[2])
				msg, old, nl := c18check(v.Path, v.Op, rune(k))
				fmt.Printf("path=%v op=%v old=%v new=%v -> %q\n", v.Path, v.Op, old, nl, msg)
				if msg != "" {
					os.Exit(1)
				}
				return
			}
			k, _ := strconv.Atoi(args[0])
			K = rune(k)
		}
		key := func(l []items.CharRange) string { return fmt.Sprint(l) }
		out := c18out{Universe: int(K) + 1}
		var seenAll map[string][]c18op
		for _, mode := range []string{"raw", "node"} {
			var ops []c18op
			for f := rune(0); f <= K; f++ {
				for t := rune(0); t <= K; t++ {
					switch {
					case mode == "raw":
						ops = append(ops, c18op{f, t, "raw"})
					case f == t:
						ops = append(ops, c18op{f, t, "lit"}, c18op{f, t, "range"})
					case f < t:
						ops = append(ops, c18op{f, t, "range"})
					}
				}
			}
			seen := map[string][]c18op{key(nil): nil}
			queue := [][]c18op{nil}
			for len(queue) > 0 && len(out.Violations) < 20 {
				path := queue[0]
				queue = queue[1:]
				for _, o := range ops {
					msg, old, nl := c18check(path, o, K)
					out.Transitions++
					if o.F > o.T {
						out.NoopChecked++
					}
					v := c18viol{Msg: msg, Path: path, Op: o, Old: fmt.Sprint(old), New: fmt.Sprint(nl)}
					if msg != "" {
						out.Violations = append(out.Violations, v)
						continue
					}
					if len(out.Samples) < 4 && len(path) == 3 && o.F < o.T && len(nl) > 3 {
						out.Samples = append(out.Samples, v)
					}
					k := key(nl)
					if _, ok := seen[k]; !ok {
						np := append(append([]c18op(nil), path...), o)
						seen[k] = np
						queue = append(queue, np)
						if len(np) > out.MaxDepth {
							out.MaxDepth = len(np)
						}
					}
				}
			}
			if mode == "raw" {
				out.States = len(seen)
				seenAll = seen
			} else {
				out.StatesViaNodes = len(seen)
				if len(seen) != out.States && len(out.Violations) == 0 {
					out.Violations = append(out.Violations, c18viol{Msg: fmt.Sprintf("reachable class lists differ: %d through AddRange, %d through AddLexTNode", out.States, len(seen))})
				}
			}
		}
		seen := seenAll
		// start from non-initial states too: sets that already hold 17 and 33 classes (an implementation may switch
		// strategy with the size of the set); every sequence of two further operations over a window around them
		if len(out.Violations) == 0 {
			for _, nBase := range []int{17, 33} {
				var base []c18op
				for i := 0; i < nBase; i++ {
					base = append(base, c18op{rune(3 * i), rune(3*i + 1), "raw"})
				}
				hi := rune(3*nBase + 1)
				win := []rune{0, 1, 2, 3, 4, rune(3 * (nBase / 2)), rune(3*(nBase/2) + 1), rune(3*(nBase/2) + 2), rune(3*(nBase/2) + 3), hi - 5, hi - 4, hi - 3, hi - 2, hi - 1, hi}
				var ops []c18op
				for _, f := range win {
					for _, t := range win {
						if f <= t {
							ops = append(ops, c18op{f, t, "raw"})
						}
					}
				}
				for _, o1 := range ops {
					p1 := append(append([]c18op(nil), base...), o1)
					if msg, old, nl := c18check(base, o1, hi); msg != "" {
						out.Violations = append(out.Violations, c18viol{Msg: msg, Path: base, Op: o1, Old: fmt.Sprint(old), New: fmt.Sprint(nl), K: int(hi)})
						break
					}
					out.Transitions++
					out.LargeSetTransitions++
					for _, o2 := range ops {
						out.Transitions++
						out.LargeSetTransitions++
						if msg, old, nl := c18check(p1, o2, hi); msg != "" {
							out.Violations = append(out.Violations, c18viol{Msg: msg, Path: p1, Op: o2, Old: fmt.Sprint(old), New: fmt.Sprint(nl), K: int(hi)})
							break
						}
					}
					if len(out.Violations) > 0 {
						break
					}
				}
			}
		}
		// every set size from 1 to 140 (an implementation's behaviour may depend on the size reaching a capacity: 16, 32,
		// 64, 128 ...): the set is grown one disjoint range at a time in ascending, descending and middle-out order, each
		// step checked; and at every size of the ascending set one insertion in front, one overlapping the first class,
		// one into a middle gap and one spanning two classes
		if len(out.Violations) == 0 {
			const nMax = 140
			hi := rune(3*nMax + 8)
			rng := func(i int) c18op { return c18op{rune(3*i + 3), rune(3*i + 4), "raw"} }
			orders := map[string]func(i int) int{
				"ascending":  func(i int) int { return i },
				"descending": func(i int) int { return nMax - 1 - i },
				"middle-out": func(i int) int {
					if i%2 == 0 {
						return nMax/2 + i/2
					}
					return nMax/2 - 1 - i/2
				},
			}
			for _, name := range []string{"ascending", "descending", "middle-out"} {
				var path []c18op
				for i := 0; i < nMax && len(out.Violations) == 0; i++ {
					o := rng(orders[name](i))
					out.Transitions++
					out.SizeSweepTransitions++
					if msg, old, nl := c18check(path, o, hi); msg != "" {
						out.Violations = append(out.Violations, c18viol{Msg: msg + " (set grown in " + name + " order)", Path: path, Op: o, Old: fmt.Sprint(old), New: fmt.Sprint(nl), K: int(hi)})
					}
					if name == "ascending" && len(path) > 0 {
						mid := len(path) / 2
						for _, o2 := range []c18op{{0, 0, "raw"}, {1, 3, "raw"}, {rune(3*mid + 5), rune(3*mid + 5), "raw"}, {rune(3*mid + 4), rune(3*mid + 6), "raw"}} {
							out.Transitions++
							out.SizeSweepTransitions++
							if msg, old, nl := c18check(path, o2, hi); msg != "" {
								out.Violations = append(out.Violations, c18viol{Msg: msg, Path: path, Op: o2, Old: fmt.Sprint(old), New: fmt.Sprint(nl), K: int(hi)})
								break
							}
						}
					}
					path = append(path, o)
				}
			}
		}
		// determinism of replay: every state's shortest path, rebuilt twice, gives the same content
		for k, p := range seen {
			if key(c18build(p).List()) != k || key(c18build(p).List()) != k {
				out.Violations = append(out.Violations, c18viol{Msg: "replay of a path is not deterministic", Path: p})
			}
			out.Replayed++
		}
		b, _ := json.Marshal(out)
		fmt.Println(string(b))
	}
}
