//go:build verif

package main

// C15: the shipped front-end tables and the real front-end Parse against spec/gocc2.ebnf.

import (
	"encoding/json"
	"fmt"
	"os"
	"sort"
	"strconv"
	"strings"

	"github.com/goccmack/gocc/internal/frontend/parser"
	"github.com/goccmack/gocc/internal/frontend/token"
	"verif/gram"
	"verif/mc"
	"verif/ref"
)

// shipped presents parser.ActionTable / GotoTable through the reference Table interface.
type shipped struct{}

func ftype(term string) (token.Type, bool) {
	if term == ref.EOF {
		return token.EOF, true
	}
	t := token.FRONTENDTokens.Type(term)
	return t, t != token.ILLEGAL
}

func (shipped) Action(s int, term string) (ref.Act, bool) {
	ty, ok := ftype(term)
	if !ok || s < 0 || s >= len(parser.ActionTable) {
		return ref.Act{}, false
	}
	a, ok := parser.ActionTable[s].Actions[ty]
	if !ok || a == nil {
		return ref.Act{}, false
	}
	switch x := a.(type) {
	case parser.Shift:
		return ref.Act{Kind: 's', N: int(x)}, true
	case parser.Reduce:
		return ref.Act{Kind: 'r', N: int(x)}, true
	case parser.Accept:
		return ref.Act{Kind: 'a'}, true
	}
	return ref.Act{Kind: '?'}, true
}

func (shipped) Goto(s int, nt string) (int, bool) {
	if s < 0 || s >= len(parser.GotoTable) {
		return -1, false
	}
	if nt == "S'" {
		nt = "S!"
	}
	g, ok := parser.GotoTable[s][parser.NT(nt)]
	return int(g), ok
}

func (shipped) Row(s int) []string {
	var out []string
	for ty := range parser.ActionTable[s].Actions {
		out = append(out, token.FRONTENDTokens.TokenString(ty))
	}
	sort.Strings(out)
	return out
}

type c15scanner struct {
	toks []*token.Token
	i    int
}

func (s *c15scanner) Scan() (*token.Token, token.Position) {
	pos := token.Position{Offset: s.i, Line: 1, Column: s.i + 1}
	if s.i < len(s.toks) {
		s.i++
		return s.toks[s.i-1], pos
	}
	s.i++
	return &token.Token{Type: token.EOF, Lit: []byte{}}, pos
}

type c15out struct {
	Pairs, Edges            int
	ProductMismatch         string
	ProdMismatch            []string
	Sequences               int
	Sentences               int
	NonViableProbes         int
	MaxLen                  int
	Violations              []map[string]any
	NViol                   int
	Known                   int // violations attributed to the empty-alternative pseudo recovery
	KnownSample             string
	Samples                 []string
	DistinctReductionTraces int
	SpecProductions         int
	ShippedStates           int
	Capped                  bool
	ContinuedAfterError     int
}

func init() {
	subcommands["c15"] = func(args []string) {
		n, _ := strconv.Atoi(args[0])
		maxSeq := 3_000_000
		if len(args) > 2 {
			maxSeq, _ = strconv.Atoi(args[2])
		}
		full := 4
		if len(args) > 3 {
			full, _ = strconv.Atoi(args[3])
		}
		after := 2 // tokens explored after an offending token at which the parser asked for more input
		if len(args) > 4 {
			after, _ = strconv.Atoi(args[4])
		}
		shard, nshards := 0, 1 // the first token of a sequence selects the shard
		if len(args) > 6 {
			shard, _ = strconv.Atoi(args[5])
			nshards, _ = strconv.Atoi(args[6])
		}
		specText, err := os.ReadFile(args[1])
		if err != nil {
			fmt.Fprintln(os.Stderr, err)
			os.Exit(2)
		}
		g, err := gram.ReadSpec(string(specText))
		if err != nil {
			fmt.Fprintln(os.Stderr, "spec reader:", err)
			os.Exit(2)
		}
		c := ref.NewCFG(g)
		lr, err := c.NewLR(0)
		if err != nil {
			fmt.Fprintln(os.Stderr, err)
			os.Exit(2)
		}
		out := &c15out{SpecProductions: len(c.Prods), ShippedStates: len(parser.ActionTable)}
		if cs, _ := lr.ConflictStates(); len(cs) > 0 {
			out.ProductMismatch = fmt.Sprintf("the documented grammar is not LR(1): conflict states %v", cs)
		}
		// production correspondence: same head, same body (shipped String has exactly NumSymbols fields after " : ")
		same := func(e, r int) bool {
			if e < 0 || e >= len(parser.ProductionsTable) || r < 0 || r >= len(c.Prods) {
				return false
			}
			pe, pr := parser.ProductionsTable[e], c.Prods[r]
			head := string(pe.Head)
			if head == "S!" {
				head = "S'"
			}
			if head != pr.Head || pe.NumSymbols != len(pr.Body) {
				return false
			}
			i := strings.Index(pe.String, " : ")
			if i < 0 {
				return false
			}
			f := strings.Fields(pe.String[i+3:])
			if len(f) < pe.NumSymbols {
				return false
			}
			for k := 0; k < pe.NumSymbols; k++ {
				if f[k] != pr.Body[k] {
					return false
				}
			}
			return true
		}
		if len(parser.ProductionsTable) != len(c.Prods) {
			out.ProdMismatch = append(out.ProdMismatch, fmt.Sprintf("%d shipped productions, %d in the documented grammar", len(parser.ProductionsTable), len(c.Prods)))
		}
		var names []string
		for _, s := range token.FRONTENDTokens.Strings() {
			names = append(names, s)
		}
		if out.ProductMismatch == "" && shard == 0 {
			pr := mc.LRProductT(shipped{}, names, lr, same)
			out.Pairs, out.Edges, out.ProductMismatch = pr.Pairs, pr.Edges, pr.Mismatch
		}
		// (ii) the real Parse on every token sequence: viable prefixes in trie order + one-token non-viable extensions
		prods := make(parser.ProdTab, len(parser.ProductionsTable))
		var log []int
		for i := range parser.ProductionsTable {
			i := i
			prods[i] = parser.ProductionsTable[i]
			prods[i].ReduceFunc = func(X []parser.Attrib) (parser.Attrib, error) {
				log = append(log, i)
				return nil, nil
			}
		}
		terms := names
		e := c.NewEarley()
		traces := map[string]bool{}
		var seq []string
		asked := 0 // number of tokens the parser requested from the scanner in the last run
		run := func() (accepted bool, reds []int, pan string) {
			sc := &c15scanner{}
			for _, t := range seq {
				ty, _ := ftype(t)
				sc.toks = append(sc.toks, &token.Token{Type: ty, Lit: []byte(t)})
			}
			log = nil
			defer func() {
				if r := recover(); r != nil {
					pan = fmt.Sprint(r)
				}
				reds = log
				asked = sc.i
			}()
			p := parser.NewParser(parser.ActionTable, parser.GotoTable, prods, token.FRONTENDTokens)
			_, err := p.Parse(sc)
			return err == nil, log, ""
		}
		check := func(alive bool) {
			out.Sequences++
			acc, reds, pan := run()
			want := alive && e.Accepted()
			if want {
				out.Sentences++
			}
			viol := func(what string) {
				// attribution rule "empty-alternative pseudo recovery": the parser accepted a non-sentence that becomes a
				// sentence when the keyword error is inserted in front of each offending token, all of them '|' or ';'
				if acc && !want && pan == "" {
					if rep, ok := repairWithError(c, seq); ok {
						out.Known++
						if out.KnownSample == "" {
							out.KnownSample = strings.Join(seq, " ") + "  (accepted as: " + strings.Join(rep, " ") + ")"
						}
						return
					}
				}
				out.NViol++
				if len(out.Violations) < 10 {
					out.Violations = append(out.Violations, map[string]any{"tokens": append([]string(nil), seq...), "what": what})
				}
			}
			switch {
			case pan != "":
				viol("Parse panicked: " + pan)
			case acc != want:
				viol(fmt.Sprintf("front-end parser accepts=%v, sentence of spec/gocc2.ebnf=%v", acc, want))
			case acc:
				d := ref.Drive(c, lr, seq, false)
				ok := len(d.Reduces) == len(reds)
				for i := 0; ok && i < len(reds); i++ {
					ok = same(reds[i], d.Reduces[i])
				}
				if !ok {
					viol(fmt.Sprintf("reductions %v do not correspond to the documented grammar's %v", reds, d.Reduces))
				}
				traces[fmt.Sprint(reds)] = true
				if len(out.Samples) < 5 && len(seq) == n {
					out.Samples = append(out.Samples, strings.Join(seq, " "))
				}
			}
		}
		if shard == 0 {
			check(true)
		}
		// viable prefixes are followed up to length n. Once the chart is dead (the sequence cannot be completed to a
		// sentence) continuations are explored only if the parser ASKED for more input after the offending token (a
		// parser that returned without requesting token k+1 cannot depend on it: exact pruning), and then for `after`
		// further tokens (within length n);
		// independently of that argument every sequence up to length full is explored
		firstIdx := 0
		var walk func(alive bool, deadAt int)
		walk = func(alive bool, deadAt int) {
			// deadAt: length of the sequence when the chart died and the parser asked for more input (0 = not applicable)
			if out.Capped || len(seq) >= n {
				return
			}
			if !alive && len(seq) >= full && (deadAt == 0 || len(seq)-deadAt >= after) {
				return
			}
			for ti, t := range terms {
				// the first two tokens select the shard (length-1 sequences are checked by shard 0)
				if len(seq) == 0 {
					firstIdx = ti
				}
				if len(seq) == 1 && (firstIdx*len(terms)+ti)%nshards != shard {
					continue
				}
				if out.Sequences >= maxSeq {
					out.Capped = true
					return
				}
				seq = append(seq, t)
				a := e.Extend(t) && alive
				if len(seq) == 1 && shard != 0 {
					// counted and checked by shard 0; still needed here to decide how to continue
					before := *out
					check(a)
					keepAsked := asked
					*out = before
					asked = keepAsked
				} else {
					if !a {
						out.NonViableProbes++
					}
					check(a)
				}
				d := deadAt
				if alive && !a {
					d = 0
					if asked > len(seq) {
						d = len(seq)
						out.ContinuedAfterError++
					}
				}
				if a && len(seq) > out.MaxLen {
					out.MaxLen = len(seq)
				}
				walk(a, d)
				e.Pop()
				seq = seq[:len(seq)-1]
			}
		}
		walk(true, 0)
		out.DistinctReductionTraces = len(traces)
		b, _ := json.Marshal(out)
		fmt.Println(string(b))
	}
}

// repairWithError inserts the keyword error in front of each token at which the Earley chart dies, provided that
// token is '|' or ';'; reports whether the result is a sentence.
func repairWithError(c *ref.CFG, seq []string) ([]string, bool) {
	e := c.NewEarley()
	var out []string
	inserted := false
	for _, t := range seq {
		if !e.Extend(t) {
			e.Pop()
			if t != "|" && t != ";" {
				return nil, false
			}
			if !e.Extend("error") {
				return nil, false
			}
			out = append(out, "error")
			inserted = true
			if !e.Extend(t) {
				return nil, false
			}
		}
		out = append(out, t)
	}
	return out, inserted && e.Accepted()
}
