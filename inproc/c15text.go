//go:build verif

package main

import (
	"encoding/json"
	"fmt"
	"strings"

	"github.com/goccmack/gocc/internal/frontend/parser"
	"github.com/goccmack/gocc/internal/frontend/scanner"
	"github.com/goccmack/gocc/internal/frontend/token"
)

// c15text: the front end as a whole - the real scanner feeding the real parser (reduce functions stubbed) - on TEXTS:
// a few well-formed grammar texts must be accepted, and the same texts with one stray lexeme that is not part of the
// documented token alphabet inserted at any gap must be refused (the parser can only be as exact as the tokens it is
// handed: a scanner / token map that turns an unknown lexeme into end of input makes the front end accept a prefix).
func init() {
	subcommands["c15text"] = func(args []string) {
		prods := make(parser.ProdTab, len(parser.ProductionsTable))
		for i := range parser.ProductionsTable {
			prods[i] = parser.ProductionsTable[i]
			prods[i].ReduceFunc = func(X []parser.Attrib) (parser.Attrib, error) { return nil, nil }
		}
		accepts := func(text string) (ok bool, pan string) {
			defer func() {
				if r := recover(); r != nil {
					ok, pan = false, fmt.Sprint(r)
				}
			}()
			s := &scanner.Scanner{}
			s.Init([]byte(text), token.FRONTENDTokens)
			p := parser.NewParser(parser.ActionTable, parser.GotoTable, prods, token.FRONTENDTokens)
			_, err := p.Parse(s)
			return err == nil, ""
		}
		bases := [][]string{
			{"a", ":", "'a'", ";", "S", ":", "a", ";"},
			{"!ws", ":", "' '", ";", "_d", ":", "'0'", "-", "'9'", ";", "n", ":", "_d", "{", "_d", "}", ";", "S", ":", "n", "\"+\"", "S", "<< X[0], nil >>", "|", "empty", ";"},
			{"t", ":", "[", "'a'", "]", "(", "'b'", "|", ".", ")", ";"},
			{"importpath", ":", "'a'", ";", "emptyx", ":", "'b'", ";", "errors", ":", "'c'", ";", "Unit", ":", "importpath", "emptyx", "errors", "|", "Imports", ";", "Imports", ":", "importpath", ";"},
		}
		junk := []string{",", "/", "<", "<=", "=", "+", "*", "#", "@", "$", "%", "^", "&", "~", "?", "import", "\\", "7", ">", ">>", "\x01", "\x7f"}
		type viol struct {
			Text string `json:"text"`
			What string `json:"what"`
		}
		var out struct {
			Texts      int    `json:"texts"`
			Violations []viol `json:"violations"`
		}
		for _, b := range bases {
			text := strings.Join(b, " ")
			out.Texts++
			if ok, pan := accepts(text); !ok {
				out.Violations = append(out.Violations, viol{text, "well-formed text refused by the front end " + pan})
				continue
			}
			for g := 0; g <= len(b); g++ {
				for _, j := range junk {
					if j == "import" && g > 0 {
						continue // only a lexeme of its own kind at the very beginning; elsewhere it is an ordinary tokId
					}
					if j == "import" {
						continue // (the word is a tokId to the documented grammar)
					}
					var parts []string
					parts = append(parts, b[:g]...)
					parts = append(parts, j)
					parts = append(parts, b[g:]...)
					t := strings.Join(parts, " ")
					out.Texts++
					if ok, _ := accepts(t); ok && len(out.Violations) < 20 {
						out.Violations = append(out.Violations, viol{t, fmt.Sprintf("the stray lexeme %q (not a token of the documented grammar) at gap %d is accepted by the front end", j, g)})
					}
				}
			}
		}
		// comments are white space: a block comment ends at its first "*/" however many stars stand before it or after
		// the opening, a line comment at the line break. One comment at any gap of a well-formed text leaves it
		// well-formed; with a stray lexeme right after (or right before) the comment the text must be refused - a comment
		// that does not end where it should swallows the rest of the file, stray lexeme included.
		comments := []string{"/**/", "/***/", "/****/", "/*****/", "/* x */", "/** x */", "/* x **/", "/** x **/", "/*** x ***/", "/* x ***/", "/**** x ****/",
			"/* * / */", "/*/*/", "/* // */", "/* x\n * y\n **/", "// x\n", "//\n", "//*/\n", "// /* x\n"}
		for _, b := range bases {
			for g := 0; g <= len(b); g++ {
				for _, c := range comments {
					mk := func(mid ...string) string {
						var parts []string
						parts = append(parts, b[:g]...)
						parts = append(parts, mid...)
						parts = append(parts, b[g:]...)
						return strings.Join(parts, " ")
					}
					out.Texts++
					if ok, pan := accepts(mk(c)); !ok && len(out.Violations) < 20 {
						out.Violations = append(out.Violations, viol{mk(c), fmt.Sprintf("a well-formed text with the comment %q at gap %d is refused by the front end %s", c, g, pan)})
					}
					for _, j := range []string{",", "#", "="} {
						for _, t := range []string{mk(c, j), mk(j, c)} {
							out.Texts++
							if ok, _ := accepts(t); ok && len(out.Violations) < 20 {
								out.Violations = append(out.Violations, viol{t, fmt.Sprintf("the stray lexeme %q next to the comment %q at gap %d is accepted by the front end", j, c, g)})
							}
						}
					}
				}
			}
		}
		js, _ := json.Marshal(out)
		fmt.Println(string(js))
	}
}
