package mc

import (
	"fmt"
	"sort"

	"verif/gen"
	"verif/ref"
)

// ReadTable presents read-back (or compiled) parser tables through the reference driver's Table interface,
// addressing columns by terminal NAME (through the emitted typeMap) and goto columns by non-terminal name.
type ReadTable struct {
	P     *gen.ParserTables
	Col   map[string]int
	NTCol map[string]int
	Names []string
}

func NewReadTable(p *gen.ParserTables, typeMap []string) *ReadTable {
	t := &ReadTable{P: p, Col: map[string]int{}, NTCol: map[string]int{}, Names: typeMap}
	for i, n := range typeMap {
		if _, dup := t.Col[n]; !dup {
			t.Col[n] = i
		}
	}
	for _, pr := range p.Prods {
		t.NTCol[pr.Id] = pr.NTType
	}
	return t
}

func (t *ReadTable) Action(s int, term string) (ref.Act, bool) {
	c, ok := t.Col[term]
	if !ok || s < 0 || s >= len(t.P.Actions) || c >= len(t.P.Actions[s]) {
		return ref.Act{}, false
	}
	a := t.P.Actions[s][c]
	switch a.Kind {
	case gen.ActShift:
		return ref.Act{Kind: 's', N: a.N}, true
	case gen.ActReduce:
		return ref.Act{Kind: 'r', N: a.N}, true
	case gen.ActAccept:
		return ref.Act{Kind: 'a'}, true
	}
	return ref.Act{}, false
}

func (t *ReadTable) Goto(s int, nt string) (int, bool) {
	c, ok := t.NTCol[nt]
	if !ok || s < 0 || s >= len(t.P.Goto) || c < 0 || c >= len(t.P.Goto[s]) {
		return -1, false
	}
	g := t.P.Goto[s][c]
	return g, g >= 0
}

func (t *ReadTable) Row(s int) []string {
	var out []string
	for c, a := range t.P.Actions[s] {
		if a.Kind != gen.ActNil && c < len(t.Names) {
			out = append(out, t.Names[c])
		}
	}
	sort.Strings(out)
	return out
}

// LRResult of the product of an emitted table with the reference canonical LR(1) automaton.
type LRResult struct {
	Pairs, Edges  int
	Mismatch      string
	ConflictCells int // cells where the reference has competing actions (resolved by the rule)
}

// ProdCheck compares the emitted production table with the reference numbering.
func ProdCheck(t *ReadTable, c *ref.CFG) string {
	if len(t.P.Prods) != len(c.Prods) {
		return fmt.Sprintf("%d productions emitted, the grammar has %d (with the augmented one)", len(t.P.Prods), len(c.Prods))
	}
	ntIdx := map[string]int{}
	for i, n := range c.NTs {
		ntIdx[n] = i
	}
	for i, p := range c.Prods {
		e := t.P.Prods[i]
		if e.Id != p.Head {
			return fmt.Sprintf("production %d: emitted head %q, grammar head %q", i, e.Id, p.Head)
		}
		if e.NumSymbols != len(p.Body) {
			return fmt.Sprintf("production %d (%s): NumSymbols %d, body has %d symbols", i, p.Head, e.NumSymbols, len(p.Body))
		}
		if e.NTType != ntIdx[p.Head] {
			return fmt.Sprintf("production %d (%s): NTType %d, expected %d", i, p.Head, e.NTType, ntIdx[p.Head])
		}
	}
	return ""
}

// LRProduct explores pairs (emitted state, reference state) reachable by the same symbol string from (0,0) and
// compares, per pair, every terminal's action (kind and production; the reference resolved by "shift, else lowest
// production" where actions compete) and every goto. If it closes, the two machines are identical up to state
// numbering: equal verdicts and reduction sequences on token sequences of every length.
func LRProduct(t *ReadTable, lr *ref.LR) *LRResult {
	if m := ProdCheck(t, lr.C); m != "" {
		return &LRResult{Mismatch: m}
	}
	return LRProductT(t, t.Names, lr, func(e, r int) bool { return e == r })
}

// LRProductT is the product over any table; names are the table's own terminal names (a column the grammar does not
// know must be empty), sameProd decides whether emitted production e corresponds to reference production r.
func LRProductT(t ref.Table, names []string, lr *ref.LR, sameProd func(e, r int) bool) *LRResult {
	res := &LRResult{}
	type pair struct{ e, r int }
	seen := map[pair]bool{{0, 0}: true}
	todo := []pair{{0, 0}}
	terms := append([]string{ref.EOF}, lr.C.Terms...)
	known := map[string]bool{}
	for _, x := range terms {
		known[x] = true
	}
	for _, n := range names {
		if !known[n] {
			known[n] = true
			terms = append(terms, n)
		}
	}
	for len(todo) > 0 {
		cur := todo[len(todo)-1]
		todo = todo[:len(todo)-1]
		res.Pairs++
		for _, x := range terms {
			res.Edges++
			ea, eok := t.Action(cur.e, x)
			ra, rok := lr.Resolved(cur.r, x)
			if len(lr.Actions[cur.r][x]) > 1 {
				res.ConflictCells++
			}
			if eok != rok {
				res.Mismatch = fmt.Sprintf("state %d/%d on %s: emitted %v, canonical LR(1) %v", cur.e, cur.r, x, optAct(ea, eok), optAct(ra, rok))
				return res
			}
			if !eok {
				continue
			}
			if ea.Kind != ra.Kind || (ea.Kind == 'r' && !sameProd(ea.N, ra.N)) {
				res.Mismatch = fmt.Sprintf("state %d/%d on %s: emitted %v, canonical LR(1) resolved by the rule %v (competing: %v)", cur.e, cur.r, x, ea, ra, lr.Actions[cur.r][x])
				return res
			}
			if ea.Kind == 's' {
				p := pair{ea.N, ra.N}
				if !seen[p] {
					seen[p] = true
					todo = append(todo, p)
				}
			}
		}
		for _, nt := range lr.C.NTs {
			res.Edges++
			eg, eok := t.Goto(cur.e, nt)
			rg, rok := lr.Goto(cur.r, nt)
			if eok != rok {
				res.Mismatch = fmt.Sprintf("state %d/%d: goto on %s emitted=%v(%d) canonical=%v", cur.e, cur.r, nt, eok, eg, rok)
				return res
			}
			if eok {
				p := pair{eg, rg}
				if !seen[p] {
					seen[p] = true
					todo = append(todo, p)
				}
			}
		}
	}
	return res
}

func optAct(a ref.Act, ok bool) string {
	if !ok {
		return "no action"
	}
	return a.String()
}
