// Package mc holds the product-automaton explorers (emitted tables x reference model).
package mc

import (
	"fmt"
	"sort"
	"unicode/utf8"

	"verif/gen"
	"verif/ref"
)

// LexResult is the outcome of exploring the product of an emitted lexer DFA with R-lex to closure.
type LexResult struct {
	States, Transitions int
	Mismatch            string // "" if the product closed with all invariants holding
	Witness             []rune // rune string leading to the mismatch (last rune = offending transition)
	// Witnesses: one shortest rune string per reachable product state (for trace validation on compiled code)
	Paths [][]rune
}

type pkey struct{ s, p int }

// ImplVerdict maps an emitted action row to what the Scan loop does with it.
func ImplVerdict(a gen.LexAct, typeMap []string) ref.Verdict {
	if a.Ignore != "" {
		return ref.Verdict{Kind: 'i', Name: a.Ignore}
	}
	if a.Accept == 0 {
		return ref.Verdict{Kind: 'n'}
	}
	if a.Accept < 0 || a.Accept >= len(typeMap) {
		return ref.Verdict{Kind: '?', Name: fmt.Sprint("Accept=", a.Accept)}
	}
	return ref.Verdict{Kind: 'a', Name: typeMap[a.Accept]}
}

// LexProduct explores {(emitted state, reference state)} from (0, init). One transition per cell of the common
// refinement of all emitted case ranges and all reference literal/range boundaries: both sides are piecewise
// constant on cells, so one representative per cell covers every Unicode scalar value.
func LexProduct(t *gen.LexTables, typeMap []string, lr *ref.LexRef, wantPaths bool) *LexResult {
	res := &LexResult{}
	cutset := map[rune]bool{0: true, 0xD800: true, 0xE000: true}
	for _, st := range t.States {
		for _, c := range st.Cases {
			cutset[c.Lo] = true
			cutset[c.Hi+1] = true
		}
	}
	for _, b := range lr.Bounds {
		cutset[b] = true
	}
	var reps []rune
	for c := range cutset {
		if c >= 0 && c <= utf8.MaxRune && !(c >= 0xD800 && c < 0xE000) {
			reps = append(reps, c)
		}
	}
	sort.Slice(reps, func(i, j int) bool { return reps[i] < reps[j] })
	type node struct {
		k      pkey
		parent int
		r      rune
	}
	start := pkey{0, lr.Init()}
	nodes := []node{{start, -1, 0}}
	seen := map[pkey]int{start: 0}
	path := func(i int) []rune {
		var p []rune
		for ; nodes[i].parent >= 0; i = nodes[i].parent {
			p = append(p, nodes[i].r)
		}
		for a, b := 0, len(p)-1; a < b; a, b = a+1, b-1 {
			p[a], p[b] = p[b], p[a]
		}
		return p
	}
	if len(t.States) == 0 {
		res.Mismatch = "no lexer states emitted"
		return res
	}
	for qi := 0; qi < len(nodes); qi++ {
		cur := nodes[qi].k
		if qi > 0 && lr.State(cur.p).V.Kind == 'i' {
			// ignored text is skipped as soon as it is complete: both the Scan loop and the rules restart
			// from the initial state here, so nothing beyond an ignore state is reachable
			continue
		}
		for _, r := range reps {
			res.Transitions++
			ns := t.Step(cur.s, r)
			np := lr.Step(cur.p, r)
			if ns >= len(t.States) {
				res.Mismatch = fmt.Sprintf("transition to state %d which does not exist", ns)
				res.Witness = append(path(qi), r)
				return res
			}
			if (ns < 0) != (np < 0) {
				res.Mismatch = fmt.Sprintf("after %q: emitted DFA %s on %q but the rules %s", string(path(qi)), live(ns), r, live(np))
				res.Witness = append(path(qi), r)
				return res
			}
			if ns < 0 {
				continue
			}
			iv, rv := ImplVerdict(t.Acts[ns], typeMap), lr.State(np).V
			if iv != rv {
				res.Mismatch = fmt.Sprintf("after %q: emitted action %s, the rules say %s", string(append(path(qi), r)), vstr(iv), vstr(rv))
				res.Witness = append(path(qi), r)
				return res
			}
			k := pkey{ns, np}
			if _, ok := seen[k]; !ok {
				seen[k] = len(nodes)
				nodes = append(nodes, node{k, qi, r})
			}
		}
	}
	res.States = len(nodes)
	if wantPaths {
		for i := range nodes {
			res.Paths = append(res.Paths, path(i))
		}
	}
	return res
}

func live(s int) string {
	if s < 0 {
		return "has no transition"
	}
	return "continues"
}

func vstr(v ref.Verdict) string {
	switch v.Kind {
	case 'n':
		return "no match"
	case 'a':
		return "token " + v.Name
	case 'i':
		return "ignore " + v.Name
	}
	return "invalid row " + v.Name
}

// PartitionCheck verifies, per emitted state, that the case ranges are sorted, pairwise disjoint and non-empty
// (C18, second part). Returns "" or a description.
func PartitionCheck(t *gen.LexTables) string {
	for s, st := range t.States {
		for i, c := range st.Cases {
			if c.Lo > c.Hi {
				return fmt.Sprintf("S%d: empty class [%d,%d]", s, c.Lo, c.Hi)
			}
			if i > 0 && st.Cases[i-1].Hi >= c.Lo {
				return fmt.Sprintf("S%d: classes [%d,%d] and [%d,%d] unsorted or overlapping", s, st.Cases[i-1].Lo, st.Cases[i-1].Hi, c.Lo, c.Hi)
			}
		}
	}
	return ""
}
