// Package rt is the neutral runtime interface between the layer-B driver and the UNMODIFIED packages that
// gocc emitted. For each compiled grammar an adapter (generated next to gocc's output, never editing it)
// registers an Impl here. Semantic actions of the syntax families are calls to rt.A.
package rt

import (
	"encoding/hex"
	"fmt"
	"reflect"
	"strings"
	"sync"
)

// Token is a generated token.Token in neutral form.
type Token struct {
	Type   int
	Lit    string
	Offset int
	Line   int
	Column int
	Ctx    bool // Pos.Context non-nil
}

// TokRef identifies a token object handed out by the scripted scanner (index in the script; >= len = the
// k-th fresh EOF token), by POINTER identity, or Idx -1 with the token content for a foreign token object.
type TokRef struct {
	Idx int
	Tok Token
}

func (t TokRef) String() string {
	if t.Idx >= 0 {
		return fmt.Sprintf("tok#%d", t.Idx)
	}
	return fmt.Sprintf("tok?(%d,%q@%d)", t.Tok.Type, t.Tok.Lit, t.Tok.Offset)
}

// ErrRef is a generated *errors.Error in neutral form.
type ErrRef struct {
	HasErr         bool   // Err field non-nil
	ErrText        string // Err.Error()
	Injected       bool   // Err (or its Unwrap chain) is the injected failure of this recorder
	ErrorToken     any    // TokRef or nil
	ErrorSymbols   []any
	ExpectedTokens []string
	StackTop       int
}

// Node is the attribute produced by rt.A.
type Node struct {
	Alt  int
	Kids []any
}

func (n *Node) String() string { return n.str(0) }

// str renders at most six levels (a runaway parser builds trees tens of thousands of levels deep).
func (n *Node) str(depth int) string {
	if n == nil {
		return "nil"
	}
	if depth > 6 {
		return fmt.Sprintf("N%d[...]", n.Alt)
	}
	s := fmt.Sprintf("N%d[", n.Alt)
	for i, k := range n.Kids {
		if i > 0 {
			s += " "
		}
		if kn, ok := k.(*Node); ok {
			s += kn.str(depth + 1)
		} else {
			s += fmt.Sprint(k)
		}
	}
	return s + "]"
}

// Event is one entry of a parser run's log.
type Event struct {
	Kind string // "scan" | "act"
	N    int    // scan: index of the token handed out; act: alternative number
	Args []any  // act: converted arguments
	Ctx  string // act: which context value the action received
}

func (e Event) String() string {
	if e.Kind == "scan" {
		return fmt.Sprintf("scan(%d)", e.N)
	}
	return "act" + (&Node{Alt: e.N, Kids: e.Args}).str(0)[1:] + e.Ctx
}

// Recorder is the value stored in Parser.Context; actions receive it as $Context.
type Recorder struct {
	Log      []Event
	Conv     func(any) any // adapter-specific: *token.Token -> TokRef, *errors.Error -> *ErrRef
	FailAt   int           // 1-based index of the action call that returns InjectedErr (0 = never)
	acts     int
	Yield    func() // scheduler yield point (nil = none)
	Injected error
	Name     string
	raw      [][]any     // the attribute values handed to each action, as received
	MaxActs  int         // action-call budget (0 = 3000): a parser that keeps reducing without reading input is cut off
	OnAct    func(n int) // called after the n-th action call was recorded (the adapter uses it to reassign Parser.Context)
	SwitchAt int         // context mode 3: Parser.Context is reassigned after this many action calls
}

// BudgetExceeded is the panic value used to stop a run that exceeds its scan or action budget (non-termination).
type BudgetExceeded struct{}

// InjectedError is returned by the FailAt-th action.
type InjectedError struct{ Who *Recorder }

func (e *InjectedError) Error() string { return "injected action failure" }

// Default is used when an action receives a nil context (sequential runs only).
var Default *Recorder

// A is the semantic action of the syntax families: << rt.A($Context, alt, $0, $T1, ...) >>.
func A(c any, alt int, args ...any) (any, error) {
	rec, _ := c.(*Recorder)
	ctx := ""
	if rec == nil {
		rec = Default
		ctx = fmt.Sprintf("/ctx=%v", c)
		if c != nil {
			if o, ok := c.(*OtherContext); ok {
				ctx = "/ctx=other:" + o.Name
				rec = o.Rec
			}
		}
	}
	if rec == nil {
		panic("rt.A: no recorder")
	}
	conv := make([]any, len(args))
	for i, a := range args {
		conv[i] = rec.conv(a)
	}
	rec.Log = append(rec.Log, Event{Kind: "act", N: alt, Args: conv, Ctx: ctx})
	rec.raw = append(rec.raw, append([]any(nil), args...))
	rec.acts++
	if rec.OnAct != nil {
		rec.OnAct(rec.acts)
	}
	if max := rec.MaxActs; (max == 0 && rec.acts > 3000) || (max > 0 && rec.acts > max) {
		panic(BudgetExceeded{})
	}
	if rec.Yield != nil {
		rec.Yield()
	}
	if rec.FailAt > 0 && rec.acts == rec.FailAt {
		rec.Injected = &InjectedError{rec}
		return nil, rec.Injected
	}
	return &Node{Alt: alt, Kids: conv}, nil
}

// OtherContext is a second, distinct context value (C03: $Context must denote whatever is stored).
type OtherContext struct {
	Name string
	Rec  *Recorder
}

func (r *Recorder) conv(a any) any {
	switch v := a.(type) {
	case nil:
		return nil
	case *Node:
		return v
	}
	if r.Conv != nil {
		return r.Conv(a)
	}
	return a
}

// OnScan is called by the scripted scanner before it hands out token i.
func (r *Recorder) OnScan(i int) {
	r.Log = append(r.Log, Event{Kind: "scan", N: i})
	if r.Yield != nil {
		r.Yield()
	}
}

// Result of one Parse call.
type Result struct {
	Value    any     // converted result
	Err      *ErrRef // nil when Parse returned a nil error
	ErrOther string  // non-nil error that is not *errors.Error
	Panic    string
	Scans    int
	Budget   bool   // the scan/action budget was exceeded (treated as non-termination)
	ErrObj   any    // the raw error value returned by Parse (for Impl.ErrorString)
	Unstable string // an attribute handed to an action changed afterwards (see Recorder.Unstable)
}

// Lexer is a generated lexer.
type Lexer interface {
	Scan() Token
	Reset()
}

// Parser is a generated parser with the scripted scanner.
type Parser interface {
	// Parse runs Parse on a scripted token sequence (types; literal "t<i>"), logging into rec.
	// ctxMode: 0 = Context is rec, 1 = Context nil, 2 = Context is an *OtherContext wrapping rec.
	Parse(types []int, rec *Recorder, ctxMode int, maxScans int) Result
	// ParseSrc runs Parse with the real generated lexer on src.
	ParseSrc(src []byte, rec *Recorder) Result
	// ParseSrcCtx: the real lexer on src with a source context of the given name; the parser's own Context field is
	// not touched (on a parser nobody gave a context it is nil: actions then log into rt.Default, which the caller sets).
	ParseSrcCtx(src []byte, rec *Recorder, name string) Result
}

// Tables are the parser tables as the compiled program sees them after init().
type Tables struct {
	Actions    [][]string // action.String() per state per column ("" for nil)
	CanRecover []bool
	Goto       [][]int
	ProdId     []string
	ProdNT     []int
	ProdNum    []int
	ProdStr    []string
}

// Impl is everything an adapter exposes for one compiled grammar.
type Impl struct {
	ID            string
	NewLexer      func(src []byte) Lexer
	NewLexerCtx   func(src []byte) Lexer // lexer whose Context field is set (tokens must carry it: Token.Ctx)
	NumLexStates  int
	TransTab      func(s int, r rune) int
	ActTab        func(s int) (accept int, ignore string)
	TokId         func(t int) string
	TokType       func(id string) int
	NewParser     func() Parser
	Tables        func() *Tables
	ScanKeep      func(src []byte) func() []Token   // see the adapter: token objects kept, rendered on demand
	LexFile       func(path string) (string, error) // NewLexerFile(path): every token with Pos.String()
	TokenAPI      func(typ int, lit string) string  // results of the token package's accessors on a fresh token
	ErrorString   func(errObj any) string           // err.Error() of the raw error value
	ErrorExpected func(errObj any) []string         // a copy of the ExpectedTokens field of the raw error value (nil if it is not a parser error)
}

var (
	mu  sync.Mutex
	reg = map[string]*Impl{}
)

func Register(i *Impl) {
	mu.Lock()
	reg[i.ID] = i
	mu.Unlock()
}

func Get(id string) *Impl {
	mu.Lock()
	defer mu.Unlock()
	return reg[id]
}

// Render gives attributes a canonical string form (shared with the reference machines): t<i> for the i-th token,
// N<alt>(...) for an action result, E(t<i>;discarded...) for an error attribute, nil.
func Render(v any) string { return renderD(v, 0) }

func renderD(v any, depth int) string {
	if depth > 40 {
		return "..."
	}
	switch x := v.(type) {
	case nil:
		return "nil"
	case TokRef:
		if x.Idx >= 0 {
			return fmt.Sprintf("t%d", x.Idx)
		}
		return x.String()
	case *Node:
		if x == nil {
			return "nil"
		}
		s := ""
		for i, k := range x.Kids {
			if i > 0 {
				s += ","
			}
			s += renderD(k, depth+1)
		}
		return fmt.Sprintf("N%d(%s)", x.Alt, s)
	case *ErrRef:
		s := ""
		for i, k := range x.ErrorSymbols {
			if i > 0 {
				s += ","
			}
			s += renderD(k, depth+1)
		}
		return fmt.Sprintf("E(%s;%s)", renderD(x.ErrorToken, depth+1), s)
	}
	return fmt.Sprintf("?%T(%v)", v, v)
}

// Unstable re-converts every attribute that was handed to an action and compares it with what the action saw at the
// time: an attribute object that changes AFTER it was delivered (a buffer reused by a later step) is reported.
// Node kids were converted at delivery, so only live objects (tokens, error attributes) can differ.
func (r *Recorder) Unstable() string {
	n := 0
	for _, e := range r.Log {
		if e.Kind != "act" {
			continue
		}
		if n >= len(r.raw) {
			break
		}
		for k, a := range r.raw[n] {
			if now, then := Render(r.conv(a)), Render(e.Args[k]); now != then {
				return fmt.Sprintf("argument %d of action call #%d (alternative %d) was %s when the action ran and is %s after Parse returned", k, n+1, e.N, then, now)
			}
		}
		n++
	}
	return ""
}

// LitCheck is returned by L.
type LitCheck struct{ bad string }

// LitMismatch holds the first literal mismatch seen since it was last cleared (single-threaded tasks only).
var LitMismatch string

// L compares a literal as the generated action spells it with the value the grammar's action text denotes (hex).
func L(got, wantHex string) LitCheck {
	want, err := hex.DecodeString(wantHex)
	if err != nil || string(want) != got {
		return LitCheck{fmt.Sprintf("a literal of the action reached the generated code as %q, the grammar says %q", got, want)}
	}
	return LitCheck{}
}

// A records the mismatch, if any, and behaves like the package-level A.
func (l LitCheck) A(c any, alt int, args ...any) (any, error) {
	if l.bad != "" && LitMismatch == "" {
		LitMismatch = l.bad
	}
	return A(c, alt, args...)
}

// CallAccessors calls every exported method of v that takes no parameters (by reflection, in name order) and renders
// the results; a panic inside one is rendered, not propagated.
func CallAccessors(v any) string {
	rv := reflect.ValueOf(v)
	rt := rv.Type()
	var sb strings.Builder
	for i := 0; i < rt.NumMethod(); i++ {
		m := rt.Method(i)
		if m.Type.NumIn() != 1 {
			continue
		}
		func() {
			defer func() {
				if r := recover(); r != nil {
					fmt.Fprintf(&sb, "%s=panic ", m.Name)
				}
			}()
			out := rv.Method(i).Call(nil)
			fmt.Fprintf(&sb, "%s=", m.Name)
			for _, o := range out {
				fmt.Fprintf(&sb, "%v,", o.Interface())
			}
			sb.WriteString(" ")
		}()
	}
	return sb.String()
}
