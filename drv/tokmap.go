package drv

import (
	"fmt"

	"verif/corp"
	"verif/rt"
)

func init() {
	// tokmap: C10(B). Compiled token package: Type(Id(i)) = i for every number, Id(Type(n)) = n for every terminal
	// name, unknown names map to INVALID; lexing the canonical lexeme of each string-literal terminal yields its number.
	tasks["tokmap"] = func(spec *corp.Spec, it *corp.Item, im *rt.Impl) {
		st := newStats(it)
		defer st.flush()
		if it.Tok == nil {
			return
		}
		n := len(it.Tok.TypeMap)
		for i := 0; i < n; i++ {
			st.add("lookups", 2)
			id := im.TokId(i)
			if jsonSafe(id) != it.Tok.TypeMap[i] {
				emit(&Out{Item: it.ID, Kind: "inconsistent", What: fmt.Sprintf("TokMap.Id(%d)=%q, reader saw %q", i, id, it.Tok.TypeMap[i])})
				return
			}
			if back := im.TokType(id); back != i {
				st.violation("C10", fmt.Sprintf("%s Type(Id(%d))", it.ID, i), fmt.Sprintf("Type(Id(%d)) = Type(%q) = %d: lookups are not inverse", i, id, back), map[string]any{"number": i, "name": id})
			}
		}
		if id := im.TokId(n); id != "unknown" {
			st.violation("C10", it.ID+" Id(beyond)", fmt.Sprintf("Id(%d) beyond the last terminal = %q", n, id), map[string]any{})
		}
		terms, _ := it.Extra["terminals"].([]any)
		for _, t := range terms {
			name := fmt.Sprint(t)
			st.add("lookups", 2)
			ty := im.TokType(name)
			if ty < 2 {
				st.violation("C10", it.ID+" Type("+name+")", fmt.Sprintf("terminal %q has number %d (INVALID/EOF)", name, ty), map[string]any{"name": name})
				continue
			}
			if back := im.TokId(ty); back != name {
				st.violation("C10", it.ID+" Id(Type("+name+"))", fmt.Sprintf("Id(Type(%q)) = %q", name, back), map[string]any{"name": name})
			}
			st.dist(name)
		}
		isTerm := map[string]bool{}
		for _, t := range it.Tok.TypeMap {
			isTerm[t] = true
		}
		for _, u := range []string{"", "S", "Zz", "no such token", "a ", " a", "A", "\x00", "unknown", "invalid", "eof", "\"a\"", "'a'"} {
			if isTerm[u] {
				continue
			}
			st.add("lookups", 1)
			if ty := im.TokType(u); ty != 0 {
				st.violation("C10", it.ID+" unknown "+u, fmt.Sprintf("unknown name %q maps to %d, not INVALID", u, ty), map[string]any{"name": u})
			}
		}
		// lookups do not depend on earlier lookups: every sequence of three Type calls over a few terminal names and
		// unknown names (the same name twice in a row included), each with an Id call in between or not, answers as
		// the single lookups above did
		{
			var alpha []string
			want := map[string]int{}
			for i := 2; i < n && len(alpha) < 4; i++ {
				name := im.TokId(i)
				if _, dup := want[name]; dup || jsonSafe(name) != name {
					continue
				}
				alpha = append(alpha, name)
				want[name] = i
			}
			for _, u := range []string{"", "no such token", "S"} {
				if !isTerm[u] {
					alpha = append(alpha, u)
					want[u] = 0
				}
			}
			bad := false
			for _, withId := range []bool{false, true} {
				for a := 0; a < len(alpha) && !bad; a++ {
					for b := 0; b < len(alpha) && !bad; b++ {
						for c := 0; c < len(alpha) && !bad; c++ {
							seq := []string{alpha[a], alpha[b], alpha[c]}
							st.add("lookup_sequences", 1)
							for k, name := range seq {
								got := im.TokType(name)
								if withId {
									im.TokId(got)
								}
								if got != want[name] {
									bad = true
									st.violation("C10", it.ID+" lookup history", fmt.Sprintf("after the lookups Type(%q) the lookup Type(%q) = %d; asked on its own it is %d: the answer depends on earlier lookups", seq[:k], name, got, want[name]), map[string]any{"sequence": seq, "position": k})
									break
								}
							}
						}
					}
				}
			}
		}
		// the lexer emits exactly these numbers: the lexeme of a string-literal terminal is its content
		lits, _ := it.Extra["strlits"].([]any)
		if im.NewLexer != nil {
			for _, l := range lits {
				src := []byte(fmt.Sprint(l))
				tok := im.NewLexer(src).Scan()
				st.add("lexemes_scanned", 1)
				if want := im.TokType(string(src)); tok.Type != want || tok.Lit != string(src) {
					st.violation("C10", it.ID+" lex "+string(src), fmt.Sprintf("scanning the lexeme %q of a string-literal terminal yields token number %d (%q), the token package numbers it %d", src, tok.Type, tok.Lit, want), map[string]any{"lexeme": string(src)})
				}
			}
		}
		// whole sentences through the generated lexer into the generated parser
		if sents, ok := it.Extra["sentences"].([]any); ok && im.NewParser != nil && im.NewLexer != nil {
			for _, s := range sents {
				src := []byte(fmt.Sprint(s))
				res := im.NewParser().ParseSrc(src, &rt.Recorder{})
				st.add("sentences_lexed_and_parsed", 1)
				if res.Err != nil || res.Panic != "" || res.Budget || res.ErrOther != "" {
					st.violation("C10", it.ID+" sentence "+string(src), fmt.Sprintf("the sentence %q, tokenised by the generated lexer, is refused by the generated parser (panic=%q): the numbers the lexer emits are not the columns of the parser's tables", src, res.Panic), map[string]any{"source": string(src)})
					break
				}
			}
		}
		st.sample(map[string]any{"grammar": it.Text, "typeMap": it.Tok.TypeMap})
	}
}

// jsonSafe is what a string becomes on its way through the JSON spec the driver receives: every byte that is not part
// of a valid UTF-8 sequence is U+FFFD (names read from emitted files reach the driver that way).
func jsonSafe(s string) string { return string([]rune(s)) }
