package drv

import "fmt"

// Cooperative scheduler + stateless explorer (iterative preemption bounding).
// Goroutines run one at a time; they hand control back at yield points (every Scanner.Scan call and every
// semantic action). An execution is identified by its choice sequence; replaying a prefix must reproduce the same
// decision points (a divergence is a hard harness error).

type schedEvent struct {
	g    int
	done bool
}

type point struct {
	enabled        []int // canonical order: the running goroutine first if still enabled, then ascending ids
	chosen         int   // index into enabled
	runningEnabled bool
}

type execution struct {
	points  []point
	choices []int
}

func (x *execution) preemptionsBefore(i int) int {
	n := 0
	for k := 0; k < i; k++ {
		if x.points[k].runningEnabled && x.points[k].chosen != 0 {
			n++
		}
	}
	return n
}

// runSchedule runs bodies under the scheduler following prefix, then choice 0 at every later point.
func runSchedule(bodies []func(yield func()), prefix []int) *execution {
	n := len(bodies)
	wake := make([]chan struct{}, n)
	ev := make(chan schedEvent)
	for g := 0; g < n; g++ {
		wake[g] = make(chan struct{})
		go func(g int) {
			<-wake[g]
			bodies[g](func() {
				ev <- schedEvent{g, false}
				<-wake[g]
			})
			ev <- schedEvent{g, true}
		}(g)
	}
	x := &execution{}
	done := make([]bool, n)
	running := -1
	left := n
	for left > 0 {
		var en []int
		runEn := running >= 0 && !done[running]
		if runEn {
			en = append(en, running)
		}
		for g := 0; g < n; g++ {
			if !done[g] && g != running {
				en = append(en, g)
			}
		}
		c := 0
		if len(x.points) < len(prefix) {
			c = prefix[len(x.points)]
			if c >= len(en) {
				panic(fmt.Sprintf("schedule replay diverged: choice %d of %d enabled at point %d", c, len(en), len(x.points)))
			}
		}
		x.points = append(x.points, point{en, c, runEn})
		x.choices = append(x.choices, c)
		running = en[c]
		wake[running] <- struct{}{}
		e := <-ev
		if e.g != running {
			panic("scheduler: event from a goroutine that was not running")
		}
		if e.done {
			done[e.g] = true
			left--
		}
	}
	return x
}

// exploreSchedules enumerates all executions with at most bound preemptions (bound < 0: unbounded), calling
// check after each. mk must build fresh bodies for every execution. Returns the number of executions.
func exploreSchedules(mk func() []func(yield func()), bound int, maxExec int, check func(x *execution)) (execs int, capped bool) {
	var explore func(prefix []int)
	explore = func(prefix []int) {
		if maxExec > 0 && execs >= maxExec {
			capped = true
			return
		}
		x := runSchedule(mk(), prefix)
		execs++
		check(x)
		for i := len(prefix); i < len(x.points); i++ {
			p := x.points[i]
			for alt := 1; alt < len(p.enabled); alt++ {
				cost := x.preemptionsBefore(i)
				if p.runningEnabled {
					cost++ // switching away from a runnable goroutine is a preemption
				}
				if bound >= 0 && cost > bound {
					continue
				}
				explore(append(append([]int{}, x.choices[:i]...), alt))
			}
		}
	}
	explore(nil)
	return
}
