package drv

import (
	"fmt"
	"os"
	"path/filepath"
	"strings"
	"sync"

	"verif/corp"
	"verif/ref"
	"verif/rt"
)

type concInput struct {
	toks []string
	src  []byte // non-nil: parse through the real lexer
}

func (in concInput) String() string {
	if in.src != nil {
		return fmt.Sprintf("src %q", in.src)
	}
	return "[" + strings.Join(in.toks, " ") + "]"
}

func runOne(im *rt.Impl, in concInput, yield func()) string {
	return runOn(im, im.NewParser(), in, yield)
}

// runOn parses in on the given (possibly already used) parser object.
func runOn(im *rt.Impl, p rt.Parser, in concInput, yield func()) string {
	rec := &rt.Recorder{Yield: yield, MaxActs: 100000}
	var res rt.Result
	if in.src != nil {
		res = p.ParseSrc(in.src, rec)
	} else {
		res = p.Parse(seqTypes(im, in.toks), rec, 0, len(in.toks)+4)
	}
	s := sig(res, rec)
	if res.ErrObj != nil && im.ErrorString != nil {
		s += " text=" + im.ErrorString(res.ErrObj)
	}
	return s
}

func concInputs(it *corp.Item, im *rt.Impl, n int) []concInput {
	c := ref.NewCFG(it.G)
	var terms []string
	for _, t := range c.Terms {
		if t != "error" {
			terms = append(terms, t)
		}
	}
	var ins []concInput
	for _, s := range allSeqs(terms, n) {
		ins = append(ins, concInput{toks: s})
	}
	if im.NewLexer != nil {
		// sources built from the one-letter lexemes of the terminals (a : 'a' ;), plus an unmatched rune
		for _, s := range allSeqs(terms, n) {
			if len(s) == 0 {
				continue
			}
			src := ""
			for _, t := range s {
				src += string(t[0])
			}
			ins = append(ins, concInput{src: []byte(src)})
		}
		ins = append(ins, concInput{src: []byte("a?b")})
	}
	return ins
}

func init() {
	// conc: C17(i). Two (opt.three: three) goroutines, each with its own parser (and lexer) and its own input, under
	// the cooperative scheduler: all interleavings at yield points (unbounded for short inputs, else preemption bound
	// 2); each goroutine must obtain exactly its sequential result.
	tasks["conc"] = func(spec *corp.Spec, it *corp.Item, im *rt.Impl) {
		st := newStats(it)
		defer st.flush()
		if im.NewParser == nil {
			return
		}
		ins := concInputs(it, im, spec.N)
		alone := make([]string, len(ins))
		for i, in := range ins {
			alone[i] = runOne(im, in, nil)
			// replay determinism: the same input twice gives the same observation
			if again := runOne(im, in, nil); again != alone[i] {
				emit(&Out{Item: it.ID, Kind: "inconsistent", What: "sequential run is not deterministic on " + in.String()})
				return
			}
		}
		three, _ := spec.Opt["three"].(bool)
		maxExec := 3000
		if v, ok := spec.Opt["max_exec"].(float64); ok {
			maxExec = int(v)
		}
		explore := func(idx []int) {
			got := make([]string, len(idx))
			mk := func() []func(func()) {
				bodies := make([]func(func()), len(idx))
				for k, i := range idx {
					k, i := k, i
					bodies[k] = func(yield func()) { got[k] = runOne(im, ins[i], yield) }
				}
				return bodies
			}
			// measure the number of yield points with the default schedule to choose the bound
			x0 := runSchedule(mk(), nil)
			bound := -1
			if len(x0.points) > 12 {
				bound = 2
			}
			var first *execution
			execs, capped := exploreSchedules(mk, bound, maxExec, func(x *execution) {
				st.add("schedules", 1)
				st.add("yield_points", int64(len(x.points)))
				if first == nil {
					first = x
				}
				for k, i := range idx {
					if got[k] != alone[i] {
						names := []string{}
						for _, j := range idx {
							names = append(names, ins[j].String())
						}
						st.violation("C17", fmt.Sprintf("%s %v %v", it.ID, names, x.choices),
							fmt.Sprintf("goroutine %d parsing %s concurrently with %v under schedule %v obtains %s; alone it obtains %s", k, ins[i], names, x.choices, got[k], alone[i]),
							map[string]any{"inputs": names, "schedule": x.choices, "got": got[k], "alone": alone[i]})
					}
				}
			})
			if capped {
				st.add("pairs_capped", 1)
			} else if bound < 0 {
				st.add("pairs_all_interleavings", 1)
			} else {
				st.add("pairs_preemption_bound_2", 1)
			}
			_ = execs
			// replaying one recorded schedule twice gives identical observations
			if first != nil {
				runSchedule(mk(), first.choices)
				a := append([]string(nil), got...)
				runSchedule(mk(), first.choices)
				for k := range a {
					if a[k] != got[k] {
						emit(&Out{Item: it.ID, Kind: "inconsistent", What: "schedule replay is not deterministic"})
					}
				}
			}
			st.dist(fmt.Sprint(idx))
		}
		for a := range ins {
			for b := range ins {
				explore([]int{a, b})
			}
		}
		if three {
			m := len(ins)
			if m > 6 {
				m = 6
			}
			for a := 0; a < m; a++ {
				for b := 0; b < m; b++ {
					for c := 0; c < m; c++ {
						explore([]int{a, b, c})
					}
				}
			}
		}
		st.sample(map[string]any{"grammar": it.Text, "inputs": len(ins), "flags": it.Flags})
	}

	// race: C17(ii). The same bodies free-running on 16 goroutines in a binary built with -race; results must equal
	// the sequential ones (the race detector's reports are collected from stderr by the caller).
	tasks["race"] = func(spec *corp.Spec, it *corp.Item, im *rt.Impl) {
		st := newStats(it)
		defer st.flush()
		if im.NewParser == nil {
			return
		}
		ins := concInputs(it, im, spec.N)
		// a deep input: pumping a recursive production pushes the parser stack far beyond its initial capacity
		// (long: any recursion; deep: nesting / right recursion where the grammar has one, at two different depths so
		// that whichever comes later on a reused parser is deeper than something seen before)
		cfg := ref.NewCFG(it.G)
		seenLong := map[string]bool{}
		for _, long := range [][]string{cfg.LongSentence(150), cfg.DeepSentence(150), cfg.DeepSentence(330)} {
			if long != nil && !seenLong[strings.Join(long, " ")] {
				seenLong[strings.Join(long, " ")] = true
				ins = append(ins, concInput{toks: long})
				st.add("deep_inputs", 1)
				if d := maxStackDepth(cfg, long); d > 100 {
					st.add("deep_inputs_with_parser_stack_over_100", 1)
				}
			}
		}
		if extra, ok := it.Extra["sources"].([]any); ok && im.NewLexer != nil {
			for _, x := range extra {
				ins = append(ins, concInput{src: []byte(fmt.Sprint(x))})
				st.add("long_lexeme_sources", 1)
			}
		}
		pristine := make([]string, len(ins))
		for i, in := range ins {
			pristine[i] = string(in.src)
		}
		// the concurrent phase comes FIRST: lazily initialised shared state (a cache filled on first use) is only
		// written while it is still cold, and a sequential warm-up would hide those writes from the detector
		got := make([][]string, 16)
		var wg sync.WaitGroup
		for g := 0; g < 16; g++ {
			wg.Add(1)
			got[g] = make([]string, len(ins))
			go func(g int) {
				defer wg.Done()
				// even goroutines reuse ONE parser object for all their inputs, odd ones create a fresh one each time
				var own rt.Parser
				if g%2 == 0 {
					own = im.NewParser()
				}
				for k := range ins {
					i := (k + g*7) % len(ins)
					if own != nil {
						got[g][i] = runOn(im, own, ins[i], nil)
					} else {
						got[g][i] = runOne(im, ins[i], nil)
					}
				}
			}(g)
		}
		wg.Wait()
		// lexers made from files (NewLexerFile), one file per goroutine, concurrently: every token must name its own file
		if im.LexFile != nil {
			if dir, err := os.MkdirTemp("", "verif-lexfile"); err == nil {
				var terms []string
				for _, t := range ref.NewCFG(it.G).Terms {
					if t != "error" && t != "" {
						terms = append(terms, t)
					}
				}
				paths := make([]string, 16)
				for g := range paths {
					body := ""
					for k := 0; k <= g%5; k++ {
						for _, t := range terms {
							body += string(t[0])
						}
					}
					paths[g] = filepath.Join(dir, fmt.Sprintf("unit%02d.src", g))
					os.WriteFile(paths[g], []byte(body), 0o666)
				}
				got := make([][]string, 16)
				var wg3 sync.WaitGroup
				for g := 0; g < 16; g++ {
					wg3.Add(1)
					go func(g int) {
						defer wg3.Done()
						for round := 0; round < 20; round++ {
							s, _ := im.LexFile(paths[g])
							got[g] = append(got[g], s)
						}
					}(g)
				}
				wg3.Wait()
				for g := 0; g < 16; g++ {
					want, _ := im.LexFile(paths[g])
					for _, s := range got[g] {
						st.add("file_lexer_runs", 1)
						if s != want {
							st.violation("C17", fmt.Sprintf("%s race lexfile %d", it.ID, g), fmt.Sprintf("free-running goroutine %d: the lexer made by NewLexerFile(%s) gives %s; alone %s", g, filepath.Base(paths[g]), clipStr(s, 300), clipStr(want, 300)), map[string]any{"file": filepath.Base(paths[g])})
							break
						}
					}
				}
				os.RemoveAll(dir)
			}
		}
		// the token package's accessors (what semantic actions call on their tokens), concurrently on tokens of the
		// goroutines' own making - some spellings shared, some unique per goroutine - then compared with a sequential call
		if im.TokenAPI != nil {
			lits := func(g int) []string {
				return []string{"abc", "x1", "123", "1.5", "'x'", "\"s t\"", fmt.Sprintf("id%dq", g), fmt.Sprintf("%d", 1000+g), fmt.Sprintf("name_%d_%d", g, g*g)}
			}
			res := make([][]string, 16)
			var wg2 sync.WaitGroup
			for g := 0; g < 16; g++ {
				wg2.Add(1)
				go func(g int) {
					defer wg2.Done()
					for round := 0; round < 3; round++ {
						for _, l := range lits(g) {
							res[g] = append(res[g], im.TokenAPI(2, l))
						}
					}
				}(g)
			}
			wg2.Wait()
			for g := 0; g < 16; g++ {
				k := 0
				for round := 0; round < 3; round++ {
					for _, l := range lits(g) {
						st.add("token_accessor_calls", 1)
						if want := im.TokenAPI(2, l); res[g][k] != want {
							st.violation("C17", fmt.Sprintf("%s race tokenapi %s", it.ID, l), fmt.Sprintf("free-running goroutine %d: the token accessors on a token %q give %s; alone %s", g, l, res[g][k], want), map[string]any{"lit": l})
						}
						k++
					}
				}
			}
		}
		for i, in := range ins {
			if in.src != nil && string(in.src) != pristine[i] {
				st.violation("C17", fmt.Sprintf("%s race buffer %q", it.ID, pristine[i]), fmt.Sprintf("the source bytes handed to the lexers (read-only input shared by all goroutines) were modified: %q is now %q", pristine[i], in.src),
					map[string]any{"input": pristine[i], "now": string(in.src)})
				copy(in.src, pristine[i])
				continue
			}
			alone := runOne(im, in, nil)
			for g := 0; g < 16; g++ {
				st.add("free_running_parses", 1)
				if got[g][i] != alone {
					st.violation("C17", fmt.Sprintf("%s race %s", it.ID, in), fmt.Sprintf("free-running goroutine %d parsing %s obtains %s; alone %s", g, in, got[g][i], alone),
						map[string]any{"input": in.String(), "got": got[g][i], "alone": alone})
					break
				}
			}
		}
	}
}

// maxStackDepth: the deepest LR stack reached on toks with the canonical LR(1) tables (0 if they cannot be built).
func maxStackDepth(c *ref.CFG, toks []string) int {
	lr, err := c.NewLR(4000)
	if err != nil {
		return 0
	}
	return ref.Drive(c, lr, toks, false).MaxDepth
}
