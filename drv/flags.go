package drv

import (
	"fmt"
	"reflect"
	"strconv"
	"strings"

	"verif/corp"
	"verif/ref"
	"verif/rt"
)

func init() {
	// flags: C12. The item is the PLAIN build of a grammar; its siblings (same Extra["group"]) were generated with
	// presentation flags. Decoded tables must be equal cell by cell; every byte string through Scan and every token
	// sequence through Parse (errors and recovery included) must give identical observations.
	tasks["flags"] = func(spec *corp.Spec, it *corp.Item, im *rt.Impl) {
		if it.Extra == nil || it.Extra["variant"] != "plain" {
			return
		}
		st := newStats(it)
		defer st.flush()
		var sibs []*corp.Item
		for _, o := range spec.Items {
			if o.ID != it.ID && o.Extra != nil && o.Extra["group"] == it.Extra["group"] {
				sibs = append(sibs, o)
			}
		}
		c := ref.NewCFG(it.G)
		var terms []string
		for _, t := range c.Terms {
			if t != "error" {
				terms = append(terms, t)
			}
		}
		n := spec.N
		for n > 2 && ipow(len(terms), n) > 20000 {
			n--
		}
		seqs := allSeqs(terms, n)
		var lr *ref.LexRef
		var alpha [][]byte
		if im.NewLexer != nil {
			lr, _ = ref.NewLexRef(it.G.Lex, strLits(it))
			if lr != nil {
				alpha = lexAlphabet(lr, 9)
			}
		}
		for _, sb := range sibs {
			sim := rt.Get(sb.ID)
			if sim == nil {
				emit(&Out{Item: sb.ID, Kind: "inconsistent", What: "no adapter"})
				continue
			}
			variant := fmt.Sprint(sb.Extra["variant"])
			st.add("variants", 1)
			// one token numbering whatever the flags: every number and every terminal name must map identically
			for i := 0; i <= len(it.Tok.TypeMap); i++ {
				st.add("token_lookups", 2)
				id := im.TokId(i)
				if sim.TokId(i) != id || sim.TokType(id) != im.TokType(id) {
					st.violation("C12", it.ID+" "+variant+" tokmap", fmt.Sprintf("flags %v: token number %d is %q (Type(%q)=%d) in the plain build but %q (Type=%d) here", sb.Flags, i, id, id, im.TokType(id), sim.TokId(i), sim.TokType(id)),
						map[string]any{"variant": variant, "number": i})
					break
				}
			}
			// tables as the compiled programs see them
			if im.Tables != nil && sim.Tables != nil {
				a, b := im.Tables(), sim.Tables()
				st.add("table_cells_compared", int64(len(a.Actions)*len(a.Actions[0])))
				if !reflect.DeepEqual(a, b) {
					st.violation("C12", it.ID+" "+variant+" tables", fmt.Sprintf("flags %v: parser tables after init() differ from the plain build's", sb.Flags), map[string]any{"variant": variant})
					continue
				}
			}
			if im.NewParser != nil && sim.NewParser != nil {
				for _, s := range seqs {
					r1, r2 := &rt.Recorder{}, &rt.Recorder{}
					a := sig(im.NewParser().Parse(seqTypes(im, s), r1, 0, len(s)+4), r1)
					b := sig(sim.NewParser().Parse(seqTypes(sim, s), r2, 0, len(s)+4), r2)
					st.add("sequences", 1)
					if a != b {
						st.violation("C12", it.ID+" "+variant+" ["+strings.Join(s, " ")+"]", fmt.Sprintf("flags %v: Parse([%s]) gives %s; plain build gives %s", sb.Flags, strings.Join(s, " "), b, a),
							map[string]any{"variant": variant, "tokens": s, "got": b, "plain": a})
						break
					}
					st.dist(variant + a)
				}
			}
			// whole pipeline (real lexer as the parser's scanner) on prepared sources - long lexemes included; the
			// caller's source buffer must come back untouched
			if srcs, ok := it.Extra["sources"].([]any); ok && sim.NewLexer != nil && sim.NewParser != nil && im.NewLexer != nil {
				for _, sv := range srcs {
					src := fmt.Sprint(sv)
					b1, b2 := []byte(src), []byte(src)
					r1, r2 := &rt.Recorder{}, &rt.Recorder{}
					a := sig(im.NewParser().ParseSrc(b1, r1), r1)
					b := sig(sim.NewParser().ParseSrc(b2, r2), r2)
					st.add("sources_parsed", 1)
					switch {
					case string(b2) != src:
						st.violation("C12", it.ID+" "+variant+" srcbuf "+strconv.Quote(src), fmt.Sprintf("flags %v: parsing %q overwrote the caller's source buffer: now %q", sb.Flags, src, b2), map[string]any{"variant": variant, "input": strconv.Quote(src)})
					case string(b1) != src:
						st.violation("C12", it.ID+" plain srcbuf "+strconv.Quote(src), fmt.Sprintf("plain build: parsing %q overwrote the caller's source buffer: now %q", src, b1), map[string]any{"input": strconv.Quote(src)})
					case a != b:
						st.violation("C12", it.ID+" "+variant+" src "+strconv.Quote(src), fmt.Sprintf("flags %v: parsing source %q gives %s; plain build gives %s", sb.Flags, src, b, a), map[string]any{"variant": variant, "input": strconv.Quote(src)})
					}
				}
			}
			if lr != nil && sim.NewLexer != nil {
				var rec func(prefix []byte, d int) bool
				rec = func(prefix []byte, d int) bool {
					a, _ := scanAll(im, im.NewLexer(prefix), prefix, 1)
					b, _ := scanAll(sim, sim.NewLexer(prefix), prefix, 1)
					st.add("inputs", 1)
					if tokStr(a) != tokStr(b) {
						st.violation("C12", it.ID+" "+variant+" "+strconv.Quote(string(prefix)), fmt.Sprintf("flags %v: lexer on %q gives %s; plain build gives %s", sb.Flags, prefix, tokStr(b), tokStr(a)),
							map[string]any{"variant": variant, "input": strconv.Quote(string(prefix))})
						return false
					}
					// the same with a Context set on the lexer: every token, the end-of-input tokens included, carries it
					// in its position whatever the flags
					if im.NewLexerCtx != nil && sim.NewLexerCtx != nil {
						ca, cb := ctxFlags(im.NewLexerCtx(prefix), len(prefix)), ctxFlags(sim.NewLexerCtx(prefix), len(prefix))
						st.add("inputs_with_context", 1)
						if ca != cb {
							st.violation("C12", it.ID+" "+variant+" ctx "+strconv.Quote(string(prefix)), fmt.Sprintf("flags %v: with a Context set on the lexer, the tokens of %q carry it as %s (1 = yes, per token, two end-of-input tokens included); plain build: %s", sb.Flags, prefix, cb, ca),
								map[string]any{"variant": variant, "input": strconv.Quote(string(prefix))})
							return false
						}
					}
					if d == 0 {
						return true
					}
					for _, x := range alpha {
						if !rec(append(append([]byte(nil), prefix...), x...), d-1) {
							return false
						}
					}
					return true
				}
				rec(nil, 3)
			}
		}
		st.sample(map[string]any{"grammar": it.Text, "variants": len(sibs)})
	}
}

// ctxFlags scans to the end of input and once more; one character per token: does its position carry the Context?
func ctxFlags(l rt.Lexer, n int) string {
	s := ""
	for i := 0; i < n+4; i++ {
		t := l.Scan()
		if t.Ctx {
			s += "1"
		} else {
			s += "0"
		}
		if t.Type == 1 {
			if t2 := l.Scan(); t2.Ctx {
				s += "1"
			} else {
				s += "0"
			}
			break
		}
	}
	return s
}
