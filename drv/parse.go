package drv

import (
	"fmt"
	"sort"
	"strings"

	"verif/corp"
	"verif/gen"
	"verif/ref"
	"verif/rt"
)

// bindParserTables: the tables the compiled program sees after init() must equal what the reader extracted.
func bindParserTables(it *corp.Item, im *rt.Impl) string {
	tb := im.Tables()
	p := it.Par
	if p == nil {
		return ""
	}
	if len(tb.Actions) != len(p.Actions) || len(tb.Goto) != len(p.Goto) || len(tb.ProdId) != len(p.Prods) {
		return fmt.Sprintf("table sizes differ: compiled %d/%d/%d reader %d/%d/%d", len(tb.Actions), len(tb.Goto), len(tb.ProdId), len(p.Actions), len(p.Goto), len(p.Prods))
	}
	for s := range p.Actions {
		if tb.CanRecover[s] != p.CanRecover[s] {
			return fmt.Sprintf("canRecover[%d] differs", s)
		}
		for c := range tb.Actions[s] {
			want := ""
			if c < len(p.Actions[s]) {
				switch a := p.Actions[s][c]; a.Kind {
				case gen.ActShift:
					want = fmt.Sprintf("shift:%d", a.N)
				case gen.ActReduce:
					want = fmt.Sprintf("reduce:%d", a.N)
				case gen.ActAccept:
					want = "accept"
				}
			}
			if tb.Actions[s][c] != want {
				return fmt.Sprintf("action[%d][%d]: compiled %q reader %q", s, c, tb.Actions[s][c], want)
			}
		}
		for c := range p.Goto[s] {
			if tb.Goto[s][c] != p.Goto[s][c] {
				return fmt.Sprintf("goto[%d][%d] differs", s, c)
			}
		}
	}
	for i, pr := range p.Prods {
		if tb.ProdId[i] != pr.Id || tb.ProdNT[i] != pr.NTType || tb.ProdNum[i] != pr.NumSymbols {
			return fmt.Sprintf("production %d differs", i)
		}
	}
	return ""
}

func actLog(rec *rt.Recorder) []int {
	var out []int
	for _, e := range rec.Log {
		if e.Kind == "act" {
			out = append(out, e.N)
		}
	}
	return out
}

func logStr(rec *rt.Recorder) string {
	var s []string
	for i, e := range rec.Log {
		if i >= 40 {
			s = append(s, fmt.Sprintf("... (%d events)", len(rec.Log)))
			break
		}
		s = append(s, e.String())
	}
	return strings.Join(s, " ")
}

func intsEq(a, b []int) bool {
	if len(a) != len(b) {
		return false
	}
	for i := range a {
		if a[i] != b[i] {
			return false
		}
	}
	return true
}

func setEq(a, b []string) bool {
	x := append([]string(nil), a...)
	y := append([]string(nil), b...)
	sort.Strings(x)
	sort.Strings(y)
	if len(x) != len(y) {
		return false
	}
	for i := range x {
		if x[i] != y[i] {
			return false
		}
	}
	return true
}

func seqTypes(im *rt.Impl, seq []string) []int {
	t := make([]int, len(seq))
	for i, s := range seq {
		t[i] = im.TokType(s)
	}
	return t
}

func init() {
	// parse: every token sequence up to N through the real Parse with a scripted scanner.
	// opt.mode: "lr1" (conflict-free: oracle Earley + canonical LR(1)) or "auto" (generated with -a: oracle = canonical
	// LR(1) resolved by "shift, else earliest production").
	tasks["parse"] = func(spec *corp.Spec, it *corp.Item, im *rt.Impl) {
		st := newStats(it)
		defer st.flush()
		if im.NewParser == nil {
			return
		}
		if msg := bindParserTables(it, im); msg != "" {
			if it.Par != nil && it.Par.Zip {
				// for -zip the reader decodes the emitted blob itself; the generated init() decoding it differently
				// is a finding about the generated code (the flag changes behaviour), not about the reader
				st.violation("C12", it.ID+" zip-decode", "tables decoded by the generated init() differ from the data the generator encoded ("+msg+")", map[string]any{"mismatch": msg})
			} else {
				emit(&Out{Item: it.ID, Kind: "inconsistent", What: msg})
				return
			}
		}
		mode, _ := spec.Opt["mode"].(string)
		c := ref.NewCFG(it.G)
		lr, err := c.NewLR(0)
		if err != nil {
			emit(&Out{Item: it.ID, Kind: "inconsistent", What: err.Error()})
			return
		}
		confl, _ := lr.ConflictStates()
		terms := []string{}
		for _, t := range c.Terms {
			if t != "error" {
				terms = append(terms, t)
			}
		}
		for _, t := range terms {
			if im.TokType(t) <= 1 {
				st.violation("C10", it.ID+" type "+t, fmt.Sprintf("terminal %q has no token type (TokMap.Type = %d)", t, im.TokType(t)), map[string]any{"terminal": t})
				return
			}
		}
		n := spec.N
		for n > 2 && ipow(len(terms), n) > 100000 {
			n--
		}
		st.add("bound", int64(n))
		productive := c.Productive() && len(c.Undefined()) == 0
		c06 := mode == "lr1" && len(confl) == 0 && !it.G.HasError() && productive
		e := c.NewEarley()
		var seq []string
		viable := []bool{true}
		check := func() {
			st.add("sequences", 1)
			rec := &rt.Recorder{}
			res := im.NewParser().Parse(seqTypes(im, seq), rec, 0, len(seq)+4)
			d := ref.Drive(c, lr, seq, false)
			key := it.ID + " [" + strings.Join(seq, " ") + "]"
			cs := func(what string) map[string]any {
				return map[string]any{"tokens": append([]string(nil), seq...), "log": logStr(rec), "what": what, "mode": mode}
			}
			prop := "C02"
			if mode == "auto" {
				prop = "C05"
			}
			switch {
			case res.Panic != "":
				st.violation(prop, key, fmt.Sprintf("tokens [%s]: Parse panicked: %s", strings.Join(seq, " "), res.Panic), cs("panic"))
				return
			case res.Budget:
				st.violation(prop, key, fmt.Sprintf("tokens [%s]: Parse does not terminate (scan budget %d exceeded)", strings.Join(seq, " "), len(seq)+4), cs("loop"))
				return
			case res.ErrOther != "":
				st.violation(prop, key, fmt.Sprintf("tokens [%s]: Parse returned a foreign error %q", strings.Join(seq, " "), res.ErrOther), cs("foreign error"))
				return
			}
			ok := res.Err == nil
			if ok {
				st.add("accepted", 1)
			}
			if mode == "lr1" {
				if want := e.Alive() && e.Accepted(); ok != want {
					st.violation("C02", key, fmt.Sprintf("tokens [%s]: Parse error=%v but sentence=%v", strings.Join(seq, " "), !ok, want), cs("verdict"))
					return
				}
			}
			if d.Loop || d.Bad != "" {
				return // reference machine itself undefined here (conflicting grammar outside the rule's reach)
			}
			if mode == "auto" && ok != d.Accept {
				st.violation("C05", key, fmt.Sprintf("tokens [%s]: Parse error=%v but the resolved canonical LR(1) machine accepts=%v", strings.Join(seq, " "), !ok, d.Accept), cs("verdict"))
				return
			}
			// reductions: the action log must be the reference machine's reduction sequence
			var want []int
			for _, p := range d.Reduces {
				want = append(want, c.Prods[p].Alt)
			}
			if got := actLog(rec); !intsEq(got, want) {
				p2 := "C05"
				if mode == "lr1" {
					p2 = "C03"
				}
				st.violation(p2, key, fmt.Sprintf("tokens [%s]: reductions %v, the reference machine performs %v", strings.Join(seq, " "), got, want), cs("reductions"))
				return
			}
			st.dist(fmt.Sprint(actLog(rec), ok))
			if !ok && c06 {
				st.add("c06_failures", 1)
				// first offending token
				off := len(seq)
				for i := range seq {
					if !viable[i+1] {
						off = i
						break
					}
				}
				et, _ := res.Err.ErrorToken.(rt.TokRef)
				if et.Idx != off {
					st.violation("C06", key, fmt.Sprintf("tokens [%s]: error carries %v but the first offending token is #%d", strings.Join(seq, " "), res.Err.ErrorToken, off), cs("error token"))
					return
				}
				// expected set = continuations of the viable prefix
				e2 := c.NewEarley()
				for _, t := range seq[:off] {
					e2.Extend(t)
				}
				if wantExp := e2.Next(); !setEq(res.Err.ExpectedTokens, wantExp) {
					st.violation("C06", key, fmt.Sprintf("tokens [%s]: expected list %v, exact continuation set %v", strings.Join(seq, " "), res.Err.ExpectedTokens, wantExp), cs("expected"))
					return
				}
				// the error is a value the caller keeps: rendering it (twice) must neither change its expected-token
				// list nor give two different messages
				if res.ErrObj != nil && im.ErrorString != nil && im.ErrorExpected != nil {
					before := im.ErrorExpected(res.ErrObj)
					m1 := im.ErrorString(res.ErrObj)
					mid := im.ErrorExpected(res.ErrObj)
					m2 := im.ErrorString(res.ErrObj)
					st.add("errors_rendered_twice", 1)
					if strings.Join(before, "\x00") != strings.Join(mid, "\x00") {
						st.violation("C06", key+" rendered", fmt.Sprintf("tokens [%s]: the error's expected-token list is %q as returned and %q after its message was rendered once", strings.Join(seq, " "), before, mid), cs("expected after rendering"))
						return
					}
					if m1 != m2 {
						st.violation("C06", key+" rendered", fmt.Sprintf("tokens [%s]: the same error renders as %q and then as %q", strings.Join(seq, " "), m1, m2), cs("message"))
						return
					}
				}
				// no action ran with the offending token as look-ahead, and nothing was scanned beyond it
				after := false
				for _, ev := range rec.Log {
					if ev.Kind == "scan" && ev.N == off {
						after = true
					} else if after {
						st.violation("C06", key, fmt.Sprintf("tokens [%s]: %s happened after the offending token #%d was read", strings.Join(seq, " "), ev, off), cs("look-ahead"))
						return
					}
				}
				st.dist(fmt.Sprint("err", off, res.Err.ExpectedTokens))
			}
			if len(seq) == n && ok {
				st.sample(map[string]any{"grammar": it.Text, "tokens": strings.Join(seq, " "), "log": logStr(rec)})
			}
		}
		if only, ok := spec.Opt["only_tokens"].([]any); ok {
			for _, t := range only {
				seq = append(seq, fmt.Sprint(t))
			}
			seq2 := seq
			seq = nil
			for _, t := range seq2 {
				seq = append(seq, t)
				a := viable[len(viable)-1] && e.Extend(t)
				if !viable[len(viable)-1] {
					e.Extend(t)
				}
				viable = append(viable, a)
			}
			check()
			return
		}
		check()
		var rec func(d int)
		rec = func(d int) {
			if d == n {
				return
			}
			for _, t := range terms {
				if st.enough() {
					return
				}
				seq = append(seq, t)
				e.Extend(t)
				alive := viable[len(viable)-1]
				if alive {
					if mode == "auto" {
						// all tokens consumed by the resolved reference machine
						dd := ref.Drive(c, lr, seq, false)
						alive = dd.ErrAt == -1 || dd.ErrAt >= len(seq)
					} else {
						alive = e.Alive()
					}
				}
				viable = append(viable, alive)
				check()
				// an LR parser never reads past the first offending token: beyond a dead prefix only one more
				// level is explored (it must behave identically), the rest is pruned
				if alive || viable[len(viable)-2] {
					rec(d + 1)
				}
				viable = viable[:len(viable)-1]
				e.Pop()
				seq = seq[:len(seq)-1]
			}
		}
		rec(0)
		// production coverage: one shortest sentence per production, when longer than the enumeration bound
		for _, sent := range c.CoverSentences() {
			if len(sent) <= n || st.enough() {
				continue
			}
			st.add("cover_sentences", 1)
			seq = nil
			viable = []bool{true}
			e = c.NewEarley()
			for _, t := range sent {
				seq = append(seq, t)
				viable = append(viable, viable[len(viable)-1] && e.Extend(t))
			}
			check()
			// and the same sentence cut short / with its last token doubled (non-sentences of that length)
			if len(seq) > 1 {
				last := seq[len(seq)-1]
				seq = seq[:len(seq)-1]
				viable = viable[:len(viable)-1]
				e.Pop()
				check()
				seq = append(seq, last, last)
				viable = append(viable, viable[len(viable)-1] && e.Extend(last))
				viable = append(viable, viable[len(viable)-1] && e.Extend(last))
				check()
			}
		}
	}
}

func ipow(b, e int) int {
	r := 1
	for i := 0; i < e; i++ {
		r *= b
		if r > 1<<40 {
			break
		}
	}
	return r
}
