package drv

import (
	"fmt"
	"hash/fnv"
	"strconv"
	"strings"

	"verif/corp"
	"verif/ref"
	"verif/rt"
)

// sig is everything C16/C17 compare about one Parse call.
func sig(res rt.Result, rec *rt.Recorder) string {
	var b strings.Builder
	fmt.Fprintf(&b, "panic=%q budget=%v scans=%d ", res.Panic, res.Budget, res.Scans)
	if res.Err != nil {
		fmt.Fprintf(&b, "err{tok=%s expected=%v err=%q stacktop=%d syms=%d} ", render(res.Err.ErrorToken), res.Err.ExpectedTokens, res.Err.ErrText, res.Err.StackTop, len(res.Err.ErrorSymbols))
	} else if res.ErrOther != "" {
		fmt.Fprintf(&b, "foreign=%q ", res.ErrOther)
	} else {
		fmt.Fprintf(&b, "ok value=%s ", render(res.Value))
	}
	calls := renderCalls(rec)
	if len(calls) > 60 {
		h := fnv.New64a()
		for _, c := range calls {
			h.Write([]byte(c))
		}
		fmt.Fprintf(&b, "calls=%d (hash %x)", len(calls), h.Sum64())
	} else {
		fmt.Fprintf(&b, "calls=%v", calls)
	}
	return b.String()
}

func allSeqs(terms []string, n int) [][]string {
	out := [][]string{nil}
	var cur []string
	var walk func(d int)
	walk = func(d int) {
		if d == n {
			return
		}
		for _, t := range terms {
			cur = append(cur, t)
			out = append(out, append([]string(nil), cur...))
			walk(d + 1)
			cur = cur[:len(cur)-1]
		}
	}
	walk(0)
	return out
}

func init() {
	// reuse: C16. Parsers: every ordered pair (opt.triples: triple) of inputs on ONE parser object, the first ones
	// optionally with an injected action failure; the last call must equal a fresh parser's. Lexers: scan j tokens,
	// Reset, scan to the end; must equal a fresh lexer (tokens and positions).
	tasks["reuse"] = func(spec *corp.Spec, it *corp.Item, im *rt.Impl) {
		st := newStats(it)
		defer st.flush()
		if im.NewParser != nil && it.G.Alts != nil {
			c := ref.NewCFG(it.G)
			var terms []string
			for _, t := range c.Terms {
				if t != "error" {
					terms = append(terms, t)
				}
			}
			n := spec.N
			for n > 1 && ipow(len(terms), n) > 150 {
				n--
			}
			inputs := allSeqs(terms, n)
			// deep inputs (nesting / right recursion where the grammar has it): the parser's stacks grow far beyond their
			// initial capacity, and whatever a parser does about that afterwards must not show in the next call; also
			// the same inputs cut short (they fail deep inside)
			nShort := len(inputs)
			seenDeep := map[string]bool{}
			depths, partners := []int{330}, 4
			if it.Fam == "Deep" {
				depths, partners = []int{330, 1500}, 8
			}
			for _, d := range depths {
				if deep := c.DeepSentence(d); deep != nil && !seenDeep[strings.Join(deep, " ")] {
					seenDeep[strings.Join(deep, " ")] = true
					inputs = append(inputs, deep, deep[:len(deep)-1])
					st.add("deep_inputs", 2)
				}
			}
			type fr struct {
				s      string
				failed bool
			}
			fresh := make([]fr, len(inputs))
			for i, in := range inputs {
				rec := &rt.Recorder{MaxActs: 200000}
				res := im.NewParser().Parse(seqTypes(im, in), rec, 0, len(in)+4)
				fs := sig(res, rec)
				if res.ErrObj != nil && im.ErrorString != nil {
					fs += " text=" + im.ErrorString(res.ErrObj)
				}
				fresh[i] = fr{fs, res.Err != nil}
			}
			triples, _ := spec.Opt["triples"].(bool)
			run := func(hist [][2]int, last int) {
				// hist: (input index, failAt) of the earlier calls
				p := im.NewParser()
				hs := ""
				outcomes := ""
				for _, h := range hist {
					rec := &rt.Recorder{FailAt: h[1], MaxActs: 200000}
					r1 := p.Parse(seqTypes(im, inputs[h[0]]), rec, 0, len(inputs[h[0]])+4)
					if r1.ErrObj != nil && im.ErrorString != nil {
						// the caller looks at the error before parsing again; rendering it twice must give the same text
						if a, b := im.ErrorString(r1.ErrObj), im.ErrorString(r1.ErrObj); a != b {
							st.violation("C16", it.ID+" errtext "+strings.Join(inputs[h[0]], " "), fmt.Sprintf("rendering the error of Parse([%s]) twice gives %q then %q", strings.Join(inputs[h[0]], " "), a, b),
								map[string]any{"tokens": inputs[h[0]], "first": a, "second": b})
						}
					}
					hs += fmt.Sprintf("[%s]fail@%d ", shortSeq(inputs[h[0]]), h[1])
					switch {
					case r1.Panic != "":
						outcomes += "P"
					case r1.Err != nil && r1.Err.Injected:
						outcomes += "I"
					case r1.Err != nil:
						outcomes += "E"
					default:
						outcomes += "S"
					}
				}
				rec := &rt.Recorder{MaxActs: 200000}
				res := p.Parse(seqTypes(im, inputs[last]), rec, 0, len(inputs[last])+4)
				st.add("histories", 1)
				got := sig(res, rec)
				if res.ErrObj != nil && im.ErrorString != nil {
					got += " text=" + im.ErrorString(res.ErrObj)
				}
				if got != fresh[last].s {
					st.violation("C16", it.ID+" "+hs+"["+shortSeq(inputs[last])+"]",
						fmt.Sprintf("after %son the same parser (each error rendered by the caller), Parse([%s]) gives %s; a fresh parser gives %s", hs, shortSeq(inputs[last]), clipStr(got, 600), clipStr(fresh[last].s, 600)),
						map[string]any{"history": hs, "tokens": inputs[last], "got": got, "fresh": fresh[last].s})
				}
				o2 := "S"
				if fresh[last].failed {
					o2 = "E"
				}
				st.dist(outcomes + ">" + o2)
			}
			// deep inputs are paired with the first short inputs and with each other (before and after), not with everything
			for d := nShort; d < len(inputs); d++ {
				for b := 0; b < len(inputs); b++ {
					if b >= partners && b < nShort {
						continue
					}
					run([][2]int{{d, 0}}, b)
					run([][2]int{{d, 1}}, b)
					run([][2]int{{d, len(inputs[d]) / 2}}, b)
					if b < nShort {
						run([][2]int{{b, 0}}, d)
					}
				}
			}
			for a := 0; a < nShort; a++ {
				for b := 0; b < nShort; b++ {
					run([][2]int{{a, 0}}, b)
					run([][2]int{{a, 1}}, b)
					if len(inputs[a]) >= 2 {
						run([][2]int{{a, 2}}, b)
					}
				}
			}
			// long histories: the same failing input twelve times, then every short input (a counter that only grows)
			for a := 0; a < nShort && a < 40; a++ {
				if !fresh[a].failed && !strings.Contains(fresh[a].s, "E(") {
					continue
				}
				var hist [][2]int
				for k := 0; k < 12; k++ {
					hist = append(hist, [2]int{a, 0})
				}
				for b := 0; b < nShort && b < 12; b++ {
					run(hist, b)
				}
				run(hist, a)
				st.add("long_histories", 1)
			}
			if triples {
				small := len(inputs)
				if small > 15 {
					small = 15
				}
				for a := 0; a < small; a++ {
					for b := 0; b < small; b++ {
						for cc := 0; cc < small; cc++ {
							run([][2]int{{a, 0}, {b, 1}}, cc)
						}
					}
				}
			}
			st.sample(map[string]any{"grammar": it.Text, "inputs": len(inputs), "example_fresh": fresh[len(fresh)-1].s})
		}
		// one parser object, sources that come with different source contexts, no user context on the parser: the
		// context the actions see is the parser's own field (nil), whatever went before
		if im.NewParser != nil && im.NewLexer != nil && it.G.Alts != nil {
			c := ref.NewCFG(it.G)
			var srcs [][]byte
			for _, sent := range c.CoverSentences() {
				b := ""
				for _, t := range sent {
					b += string(t[0])
				}
				if len(srcs) < 4 {
					srcs = append(srcs, []byte(b), []byte(b+"?"))
				}
			}
			run := func(p rt.Parser, src []byte, name string) string {
				rec := &rt.Recorder{MaxActs: 200000}
				rt.Default = rec
				res := p.ParseSrcCtx(src, rec, name)
				rt.Default = nil
				s := sig(res, rec)
				for _, ev := range rec.Log {
					if ev.Kind == "act" {
						s += ev.Ctx
					}
				}
				return s
			}
			p := im.NewParser()
			for i, src := range srcs {
				name := fmt.Sprintf("unit%d.src", i)
				got, want := run(p, src, name), run(im.NewParser(), src, name)
				st.add("sources_with_context_on_one_parser", 1)
				if got != want {
					st.violation("C16", fmt.Sprintf("%s srcctx %d", it.ID, i), fmt.Sprintf("source %q (context %s) parsed on a parser that has parsed %d sources with other contexts gives %s; a fresh parser gives %s", src, name, i, clipStr(got, 400), clipStr(want, 400)), map[string]any{"source": string(src)})
					break
				}
			}
		}
		if im.NewLexer != nil {
			lr, err := ref.NewLexRef(it.G.Lex, strLits(it))
			if err != nil {
				return
			}
			alpha := lexAlphabet(lr, 6)
			n := spec.N
			var rec func(prefix []byte, d int)
			rec = func(prefix []byte, d int) {
				freshToks, looped := scanAll(im, im.NewLexer(prefix), prefix, 1)
				if !looped {
					for j := 0; j <= len(freshToks); j++ {
						l := im.NewLexer(prefix)
						for k := 0; k < j; k++ {
							l.Scan()
						}
						l.Reset()
						got, _ := scanAll(im, l, prefix, 1)
						st.add("lexer_histories", 1)
						if tokStr(got) != tokStr(freshToks) {
							st.violation("C16", it.ID+" lexer "+strconv.Quote(string(prefix))+fmt.Sprint(" j=", j),
								fmt.Sprintf("lexer on %q: after %d Scan calls and Reset the tokens are %s; a fresh lexer gives %s", prefix, j, tokStr(got), tokStr(freshToks)),
								map[string]any{"input": strconv.Quote(string(prefix)), "scans_before_reset": j, "got": tokStr(got), "fresh": tokStr(freshToks)})
							break
						}
						if j > 0 && len(freshToks) > 2 {
							st.dist(fmt.Sprint("lex", j, len(freshToks)))
						}
					}
				}
				// the same with a lexer that carries a Context: every token, before and after Reset, must carry it
				if im.NewLexerCtx != nil && !looped {
					rawAll := func(l rt.Lexer) string {
						s := ""
						for i := 0; i <= len(prefix)+3; i++ {
							t := l.Scan()
							s += fmt.Sprintf("%d %q @%d %d:%d ctx=%v | ", t.Type, t.Lit, t.Offset, t.Line, t.Column, t.Ctx)
							if t.Type == 1 {
								break
							}
						}
						return s
					}
					freshC := rawAll(im.NewLexerCtx(prefix))
					for _, j := range []int{0, 1, len(freshToks)} {
						l := im.NewLexerCtx(prefix)
						for k := 0; k < j; k++ {
							l.Scan()
						}
						l.Reset()
						st.add("lexer_histories", 1)
						if got := rawAll(l); got != freshC {
							st.violation("C16", it.ID+" lexer-ctx "+strconv.Quote(string(prefix))+fmt.Sprint(" j=", j),
								fmt.Sprintf("lexer with a Context on %q: after %d Scan calls and Reset the tokens are %s; a fresh lexer gives %s", prefix, j, got, freshC),
								map[string]any{"input": strconv.Quote(string(prefix)), "scans_before_reset": j, "got": got, "fresh": freshC})
							break
						}
					}
				}
				if d == 0 {
					return
				}
				for _, a := range alpha {
					rec(append(append([]byte(nil), prefix...), a...), d-1)
				}
			}
			rec(nil, n)
		}
	}
}

// shortSeq renders a token sequence, abbreviating long ones (the full sequence is in the replay case).
func shortSeq(seq []string) string {
	if len(seq) <= 14 {
		return strings.Join(seq, " ")
	}
	return strings.Join(seq[:6], " ") + fmt.Sprintf(" ... (%d tokens) ... ", len(seq)) + strings.Join(seq[len(seq)-4:], " ")
}

func clipStr(s string, n int) string {
	if len(s) > n {
		return s[:n] + "..."
	}
	return s
}
