// Package drv is the layer-B driver: it runs inside the binary that links the unmodified generated packages
// and explores them exhaustively against the reference models.
package drv

import (
	"bufio"
	"encoding/json"
	"fmt"
	"os"
	"strconv"
	"sync"

	"verif/corp"
	"verif/rt"
)

// Out is one JSON line of driver output.
type Out struct {
	Item     string           `json:"item"`
	Fam      string           `json:"fam,omitempty"`
	Kind     string           `json:"kind"` // "stats" | "violation" | "lead" | "inconsistent"
	Prop     string           `json:"prop,omitempty"`
	What     string           `json:"what,omitempty"`
	Key      string           `json:"key,omitempty"`
	Case     map[string]any   `json:"case,omitempty"`
	Counters map[string]int64 `json:"counters,omitempty"`
	Distinct []string         `json:"distinct,omitempty"`
	Samples  []any            `json:"samples,omitempty"`
}

var (
	outMu sync.Mutex
	outW  = bufio.NewWriter(os.Stdout)
)

func emit(o *Out) {
	b, _ := json.Marshal(o)
	outMu.Lock()
	outW.Write(b)
	outW.WriteByte('\n')
	outMu.Unlock()
}

type task func(spec *corp.Spec, it *corp.Item, im *rt.Impl)

var tasks = map[string]task{}

func Main() {
	if len(os.Args) < 4 {
		fmt.Fprintln(os.Stderr, "usage: drv spec.json shard nshards")
		os.Exit(2)
	}
	b, err := os.ReadFile(os.Args[1])
	if err != nil {
		fmt.Fprintln(os.Stderr, err)
		os.Exit(2)
	}
	var spec corp.Spec
	if err := json.Unmarshal(b, &spec); err != nil {
		fmt.Fprintln(os.Stderr, err)
		os.Exit(2)
	}
	shard, _ := strconv.Atoi(os.Args[2])
	n, _ := strconv.Atoi(os.Args[3])
	f, ok := tasks[spec.Task]
	if !ok {
		fmt.Fprintln(os.Stderr, "unknown task", spec.Task)
		os.Exit(2)
	}
	// generated code built with -debug_lexer/-debug_parser prints to os.Stdout: keep the driver's own channel apart
	real := os.Stdout
	if null, err := os.OpenFile(os.DevNull, os.O_WRONLY, 0); err == nil {
		os.Stdout = null
	}
	outW = bufio.NewWriter(real)
	defer outW.Flush()
	for i, it := range spec.Items {
		if i%n != shard {
			continue
		}
		im := rt.Get(it.ID)
		if im == nil {
			emit(&Out{Item: it.ID, Kind: "inconsistent", What: "no adapter registered"})
			continue
		}
		// a fatal error inside generated code (stack exhaustion, out of memory) kills the process: say where we were
		fmt.Fprintf(os.Stderr, "VERIF-BEGIN %s\n", it.ID)
		f(&spec, it, im)
		outW.Flush()
	}
}

// stats accumulates counters for one item.
type stats struct {
	it       *corp.Item
	c        map[string]int64
	distinct map[string]bool
	samples  []any
	nviol    map[string]int
}

func newStats(it *corp.Item) *stats {
	return &stats{it: it, c: map[string]int64{}, distinct: map[string]bool{}, nviol: map[string]int{}}
}

func (s *stats) add(k string, n int64) { s.c[k] += n }
func (s *stats) get(k string) int64    { return s.c[k] }
func (s *stats) dist(k string) {
	if len(s.distinct) < 5000 {
		s.distinct[k] = true
	}
}
func (s *stats) sample(v any) {
	if len(s.samples) < 2 {
		s.samples = append(s.samples, v)
	}
}

// violation reports at most 3 violations per item and property (the first ones in enumeration order = shortest).
func (s *stats) violation(prop, key, what string, c map[string]any) {
	s.nviol[prop]++
	s.add("violations_"+prop, 1)
	if s.nviol[prop] > 3 {
		return
	}
	c["grammar"] = s.it.Text
	c["flags"] = s.it.Flags
	c["g"] = s.it.G // the grammar AST, so that `vcheck replay` can rebuild exactly this item
	c["item"] = s.it.ID
	emit(&Out{Item: s.it.ID, Fam: s.it.Fam, Kind: "violation", Prop: prop, Key: key, What: what, Case: c})
}

// enough: three violations of one property were reported for this item; further exploration of it adds nothing
// (and a runaway parser makes every further input expensive).
func (s *stats) enough() bool {
	for _, n := range s.nviol {
		if n >= 3 {
			return true
		}
	}
	return false
}

func (s *stats) flush() {
	var d []string
	for k := range s.distinct {
		d = append(d, k)
	}
	emit(&Out{Item: s.it.ID, Fam: s.it.Fam, Kind: "stats", Counters: s.c, Distinct: d, Samples: s.samples})
}
