package drv

import (
	"fmt"
	"strconv"
	"unicode/utf8"

	"verif/corp"
	"verif/gen"
	"verif/mc"
	"verif/ref"
	"verif/rt"
)

func strLits(it *corp.Item) []string {
	var out []string
	seen := map[string]bool{}
	for _, a := range it.G.Alts {
		for _, s := range a.Body {
			if s.Str && !seen[s.Name] {
				seen[s.Name] = true
				out = append(out, s.Name)
			}
		}
	}
	return out
}

// lexAlphabet: one representative per class of the partition induced by the grammar's literals and ranges
// (+ "other"), plus newline, tab, CR, multi-byte runes and ill-formed bytes; at most max symbols.
func lexAlphabet(lr *ref.LexRef, max int) [][]byte {
	var out [][]byte
	seen := map[string]bool{}
	add := func(b []byte) {
		if len(out) < max && !seen[string(b)] {
			seen[string(b)] = true
			out = append(out, b)
		}
	}
	must := [][]byte{{'\n'}, {'\t'}, {0xFF}, []byte("é")}
	nClass := max - len(must)
	// class representatives: 'c' for the class containing it (a readable "other"), else the lowest scalar value
	cnt := 0
	// classes that some literal or range of the grammar matches come first, the "other" classes afterwards
	var order []int
	for k := range lr.Bounds {
		if lr.ClassUsed(k) {
			order = append(order, k)
		}
	}
	for k := range lr.Bounds {
		if !lr.ClassUsed(k) {
			order = append(order, k)
		}
	}
	for _, i := range order {
		lo := lr.Bounds[i]
		if cnt >= nClass {
			break
		}
		hi := rune(utf8.MaxRune)
		if i+1 < len(lr.Bounds) {
			hi = lr.Bounds[i+1] - 1
		}
		r := lo
		if lo <= 'c' && 'c' <= hi {
			r = 'c'
		} else if r >= 0xD800 && r < 0xE000 {
			if hi < 0xE000 {
				continue
			}
			r = 0xE000
		}
		var buf [4]byte
		n := utf8.EncodeRune(buf[:], r)
		if !seen[string(buf[:n])] {
			cnt++
		}
		add(append([]byte(nil), buf[:n]...))
	}
	for _, m := range must {
		out = append(out, m)
		seen[string(m)] = true
	}
	for _, x := range [][]byte{{'c'}, {'\r'}, []byte("€"), []byte("😀"), {0x80}, {0xC3}, {0xE2, 0x82}, {0xED, 0xA0, 0x80}, {0xC0, 0x80}, {' '}} {
		add(x)
	}
	return out
}

func typeName(im *rt.Impl, t int) string {
	switch t {
	case 0:
		return "INVALID"
	case 1:
		return "EOF"
	}
	return im.TokId(t)
}

// scanAll runs the real lexer to EOF plus extra calls; guard against non-termination.
func scanAll(im *rt.Impl, l rt.Lexer, src []byte, extra int) (toks []ref.Tok, looped bool) {
	for i := 0; ; i++ {
		t := l.Scan()
		toks = append(toks, ref.Tok{Type: typeName(im, t.Type), Lit: t.Lit, Offset: t.Offset, Line: t.Line, Column: t.Column})
		if t.Type == 1 {
			break
		}
		if i > len(src)+3 {
			return toks, true
		}
	}
	for i := 0; i < extra; i++ {
		t := l.Scan()
		toks = append(toks, ref.Tok{Type: typeName(im, t.Type), Lit: t.Lit, Offset: t.Offset, Line: t.Line, Column: t.Column})
	}
	return toks, false
}

func tokStr(ts []ref.Tok) string {
	s := ""
	for _, t := range ts {
		s += fmt.Sprintf("%s(%q@%d,%d:%d) ", t.Type, t.Lit, t.Offset, t.Line, t.Column)
	}
	return s
}

// positionsOf computes line and column of a byte offset from the input alone (C08's definition).
func positionsOf(src []byte, off int) (line, col int) {
	line, col = 1, 1
	for i := 0; i < off && i < len(src); {
		r, n := utf8.DecodeRune(src[i:])
		switch r {
		case '\n':
			line++
			col = 1
		case '\r':
			col = 1
		case '\t':
			col += 4
		default:
			col++
		}
		i += n
	}
	return
}

// intrinsicPositions checks what C08 says about every returned token WITHOUT reference to how the input should be
// tokenized: the literal is exactly the input bytes at the reported offset, lexemes do not overlap or go backwards,
// line and column are those of the offset, the end-of-input token sits at len(src).
func intrinsicPositions(src []byte, got []ref.Tok) string {
	end := 0
	for i, t := range got {
		if t.Offset < 0 || t.Offset+len(t.Lit) > len(src) || string(src[t.Offset:t.Offset+len(t.Lit)]) != t.Lit {
			return fmt.Sprintf("token %d (%s %q) reports offset %d but the input bytes there are different", i, t.Type, t.Lit, t.Offset)
		}
		if t.Offset < end {
			return fmt.Sprintf("token %d (%s %q) at offset %d overlaps the previous lexeme ending at %d", i, t.Type, t.Lit, t.Offset, end)
		}
		if l, c := positionsOf(src, t.Offset); l != t.Line || c != t.Column {
			return fmt.Sprintf("token %d (%s %q) at offset %d reports line %d column %d, its offset is at line %d column %d", i, t.Type, t.Lit, t.Offset, t.Line, t.Column, l, c)
		}
		if t.Type == "EOF" && t.Offset != len(src) {
			return fmt.Sprintf("end-of-input token at offset %d, input has %d bytes", t.Offset, len(src))
		}
		if t.Type != "EOF" {
			end = t.Offset + len(t.Lit)
		}
	}
	return ""
}

// compareScan runs the real lexer on src and compares with R-tok; returns the C01 finding (tokens) and the C08
// finding (positions), each "" if none. Positions are judged both against R-tok and intrinsically.
func compareScan(im *rt.Impl, lr *ref.LexRef, src []byte) (c01, c08 string, got, want []ref.Tok) {
	var pan any
	var looped bool
	func() {
		defer func() { pan = recover() }()
		got, looped = scanAll(im, im.NewLexer(src), src, 2)
	}()
	want = lr.ScanAll(src, 2)
	if pan != nil {
		return fmt.Sprintf("Scan panicked: %v", pan), "", got, want
	}
	if looped {
		return "Scan does not reach end of input", "", got, want
	}
	c08 = intrinsicPositions(src, got)
	n := len(got)
	if len(want) < n {
		n = len(want)
	}
	for i := 0; i < n; i++ {
		g, w := got[i], want[i]
		if g.Type != w.Type || g.Lit != w.Lit {
			return fmt.Sprintf("token %d: got %s %q, the rules define %s %q", i, g.Type, g.Lit, w.Type, w.Lit), c08, got, want
		}
		if c08 == "" && (g.Offset != w.Offset || g.Line != w.Line || g.Column != w.Column) {
			c08 = fmt.Sprintf("token %d (%s %q): position offset=%d line=%d column=%d, expected offset=%d line=%d column=%d", i, g.Type, g.Lit, g.Offset, g.Line, g.Column, w.Offset, w.Line, w.Column)
		}
	}
	if len(got) != len(want) {
		return fmt.Sprintf("%d tokens, the rules define %d", len(got), len(want)), c08, got, want
	}
	return "", c08, got, want
}

// probePoints: boundary points of every case of every state plus fixed UTF-8 boundaries.
func probePoints(t *gen.LexTables) []rune {
	m := map[rune]bool{}
	for _, r := range []rune{0, 0x7F, 0x80, 0x7FF, 0x800, 0xD7FF, 0xE000, 0xFFFD, 0xFFFF, 0x10000, 0x10FFFF, 'a', 'c', -1, 0x110000, 0xD800} {
		m[r] = true
	}
	for _, st := range t.States {
		for _, c := range st.Cases {
			for _, r := range []rune{c.Lo - 1, c.Lo, c.Hi, c.Hi + 1, c.Lo + (c.Hi-c.Lo)/2} {
				m[r] = true
			}
		}
	}
	var out []rune
	for r := range m {
		out = append(out, r)
	}
	return out
}

func init() {
	tasks["lex"] = func(spec *corp.Spec, it *corp.Item, im *rt.Impl) {
		st := newStats(it)
		defer st.flush()
		if im.NewLexer == nil || it.Lex == nil {
			return
		}
		lr, err := ref.NewLexRef(it.G.Lex, strLits(it))
		if err != nil {
			emit(&Out{Item: it.ID, Kind: "inconsistent", What: "reference rejects grammar: " + err.Error()})
			return
		}
		// (1) bind the table reader to the compiled tables
		if im.NumLexStates != len(it.Lex.States) {
			emit(&Out{Item: it.ID, Kind: "inconsistent", What: fmt.Sprintf("reader saw %d states, compiled NumStates=%d", len(it.Lex.States), im.NumLexStates)})
			return
		}
		for s := range it.Lex.States {
			for _, r := range probePoints(it.Lex) {
				st.add("transtab_probes", 1)
				if g, w := im.TransTab(s, r), it.Lex.Step(s, r); g != w {
					emit(&Out{Item: it.ID, Kind: "inconsistent", What: fmt.Sprintf("TransTab[%d](%d)=%d but the reader evaluates %d", s, r, g, w)})
					return
				}
			}
			a, ig := im.ActTab(s)
			if a != it.Lex.Acts[s].Accept || ig != it.Lex.Acts[s].Ignore {
				emit(&Out{Item: it.ID, Kind: "inconsistent", What: fmt.Sprintf("ActTab[%d] = (%d,%q) but the reader saw (%d,%q)", s, a, ig, it.Lex.Acts[s].Accept, it.Lex.Acts[s].Ignore)})
				return
			}
		}
		for i, n := range it.Tok.TypeMap {
			if jsonSafe(im.TokId(i)) != n {
				emit(&Out{Item: it.ID, Kind: "inconsistent", What: fmt.Sprintf("TokMap.Id(%d)=%q but the reader saw %q", i, im.TokId(i), n)})
				return
			}
		}
		var prevSrc []byte
		check := func(src []byte, origin string) {
			st.add("inputs", 1)
			// every eighth input: the tokens of the previous input, kept as objects, must read the same after this
			// input has been scanned by another lexer
			if st.get("inputs")%8 == 1 && prevSrc != nil {
				st.add("token_stability_pairs", 1)
				if msg := tokensStable(im, prevSrc, src); msg != "" {
					st.violation("C08", it.ID+" stable "+strconv.Quote(string(prevSrc))+" "+strconv.Quote(string(src)), msg, map[string]any{"first": strconv.Quote(string(prevSrc)), "second": strconv.Quote(string(src))})
				}
			}
			prevSrc = append([]byte(nil), src...)
			c01, c08, got, want := compareScan(im, lr, src)
			st.add("tokens_compared", int64(len(want)))
			for _, f := range [][2]string{{"C01", c01}, {"C08", c08}} {
				if f[1] != "" {
					st.violation(f[0], it.ID+" "+strconv.Quote(string(src)), fmt.Sprintf("input %q: %s", src, f[1]),
						map[string]any{"input": strconv.Quote(string(src)), "origin": origin, "got": tokStr(got), "want": tokStr(want)})
				}
			}
			if c01 != "" || c08 != "" {
				return
			}
			kinds := map[string]bool{}
			sig := ""
			for _, t := range want {
				k := t.Type
				if k != "INVALID" && k != "EOF" {
					k = "tok"
				}
				kinds[k] = true
				sig += t.Type + fmt.Sprint(t.Line, t.Column) + ","
			}
			if len(want) > 3 && (kinds["tok"] && (kinds["INVALID"] || want[0].Offset > 0)) {
				st.dist(sig)
				st.sample(map[string]any{"grammar": it.Text, "input": strconv.Quote(string(src)), "tokens": tokStr(want)})
			}
		}
		if only, ok := spec.Opt["only_input"].(string); ok {
			if u, err := strconv.Unquote(only); err == nil {
				check([]byte(u), "replay")
			}
			return
		}
		// (2) every byte string up to length N over the per-grammar alphabet
		maxAlpha := 8
		if v, ok := spec.Opt["alphabet"].(float64); ok {
			maxAlpha = int(v)
		}
		alpha := lexAlphabet(lr, maxAlpha)
		st.add("alphabet", int64(len(alpha)))
		var rec func(prefix []byte, d int)
		rec = func(prefix []byte, d int) {
			check(prefix, "exhaustive")
			if d == 0 {
				return
			}
			for _, a := range alpha {
				rec(append(append([]byte(nil), prefix...), a...), d-1)
			}
		}
		rec(nil, spec.N)
		// (3) trace validation: one shortest witness per reachable product state, replayed on the real Scan,
		// alone and followed by each alphabet symbol
		res := mc.LexProduct(it.Lex, it.Tok.TypeMap, lr, true)
		st.add("product_states", int64(res.States))
		if res.Mismatch != "" {
			st.add("product_mismatch", 1)
			res.Paths = append(res.Paths, res.Witness)
		}
		for _, p := range res.Paths {
			st.add("traces_replayed", 1)
			check([]byte(string(p)), "product witness")
			for _, a := range alpha {
				check(append([]byte(string(p)), a...), "product witness+1")
				for _, b := range alpha {
					check(append(append([]byte(string(p)), a...), b...), "product witness+2")
				}
			}
		}
	}
}

// tokensStable: tokens handed out by one lexer must not change when another lexer of the same package scans another
// input afterwards (nor when the same input is scanned again). Returns a description of the first change.
func tokensStable(im *rt.Impl, a, b []byte) string {
	if im.ScanKeep == nil {
		return ""
	}
	ka := im.ScanKeep(a)
	before := fmt.Sprint(ka())
	kb := im.ScanKeep(b)
	_ = kb()
	if after := fmt.Sprint(ka()); after != before {
		return fmt.Sprintf("the tokens of %q read %s when they were handed out and %s after another lexer had scanned %q", a, before, after, b)
	}
	return ""
}
