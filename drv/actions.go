package drv

import (
	"fmt"
	"strings"

	"verif/corp"
	"verif/ref"
	"verif/rt"
)

// evalRef evaluates the grammar's actions over the reduction sequence of the reference machine (post-order of
// the parse tree): explicit action -> N<alt>(args), no action -> first attribute, empty without action -> nil.
func evalRef(c *ref.CFG, it *corp.Item, lr ref.Table, seq []string) (value string, calls []string, ok bool) {
	st := []int{0}
	at := []string{"nil"}
	i := 0
	for steps := 0; steps < 100000; steps++ {
		la := ref.EOF
		if i < len(seq) {
			la = seq[i]
		}
		a, has := lr.Action(st[len(st)-1], la)
		if !has {
			return "", calls, false
		}
		switch a.Kind {
		case 'a':
			return at[len(at)-1], calls, true
		case 's':
			st = append(st, a.N)
			at = append(at, fmt.Sprintf("t%d", i))
			i++
		case 'r':
			p := c.Prods[a.N]
			n := len(p.Body)
			args := append([]string(nil), at[len(at)-n:]...)
			st, at = st[:len(st)-n], at[:len(at)-n]
			g, _ := lr.Goto(st[len(st)-1], p.Head)
			var v string
			switch {
			case it.G.Alts[p.Alt].Action != "":
				v = fmt.Sprintf("N%d(%s)", p.Alt, strings.Join(args, ","))
				calls = append(calls, v)
			case n == 0:
				v = "nil"
			default:
				v = args[0]
			}
			st = append(st, g)
			at = append(at, v)
		}
	}
	return "", calls, false
}

func init() {
	// actions: C03. Every sentence up to N: result and action-call log against R-eval, under three context values;
	// then every choice of the failing action occurrence.
	tasks["actions"] = func(spec *corp.Spec, it *corp.Item, im *rt.Impl) {
		st := newStats(it)
		defer st.flush()
		if im.NewParser == nil {
			return
		}
		c := ref.NewCFG(it.G)
		lr, err := c.NewLR(0)
		if err != nil {
			emit(&Out{Item: it.ID, Kind: "inconsistent", What: err.Error()})
			return
		}
		if cs, _ := lr.ConflictStates(); len(cs) > 0 {
			emit(&Out{Item: it.ID, Kind: "inconsistent", What: "ActFam grammar has conflicts"})
			return
		}
		var terms []string
		for _, t := range c.Terms {
			if t != "error" {
				terms = append(terms, t)
			}
		}
		n := spec.N
		for n > 2 && ipow(len(terms), n) > 100000 {
			n--
		}
		e := c.NewEarley()
		var seq []string
		check := func() {
			if !e.Accepted() {
				return
			}
			st.add("sentences", 1)
			wantVal, wantCalls, ok := evalRef(c, it, lr, seq)
			if !ok {
				emit(&Out{Item: it.ID, Kind: "inconsistent", What: "reference LR(1) rejects an Earley sentence"})
				return
			}
			pre := fmt.Sprintf("sentence [%s]: ", strings.Join(seq, " "))
			key := it.ID + " [" + strings.Join(seq, " ") + "]"
			for ctxMode := 0; ctxMode < 4; ctxMode++ {
				rec := &rt.Recorder{}
				if ctxMode == 3 {
					if len(wantCalls) < 2 {
						continue
					}
					rec.SwitchAt = 1 + len(seq)%(len(wantCalls)-1) // somewhere before the last action
				}
				rt.Default = nil
				if ctxMode == 1 {
					rt.Default = rec
				}
				rt.LitMismatch = ""
				res := im.NewParser().Parse(seqTypes(im, seq), rec, ctxMode, len(seq)+4)
				st.add("parses", 1)
				cs := map[string]any{"tokens": append([]string(nil), seq...), "log": logStr(rec), "context_mode": ctxMode}
				if rt.LitMismatch != "" {
					st.violation("C03", key+" literal", pre+"the action that ran is not the action of the grammar: "+rt.LitMismatch, cs)
					return
				}
				if res.Panic != "" || res.Budget || res.Err != nil || res.ErrOther != "" {
					st.violation("C03", key, fmt.Sprintf("%sParse failed on a sentence (panic=%q err=%v)", pre, res.Panic, res.Err != nil), cs)
					return
				}
				calls := renderCalls(rec)
				st.add("action_calls_compared", int64(len(calls)))
				if res.Unstable != "" {
					st.violation("C03", key+" unstable", pre+"an attribute changed after it was handed to an action: "+res.Unstable, cs)
					return
				}
				if strings.Join(calls, " ") != strings.Join(wantCalls, " ") {
					st.violation("C03", key, fmt.Sprintf("%saction calls %v, post-order evaluation gives %v", pre, calls, wantCalls), cs)
					return
				}
				if got := render(res.Value); got != wantVal {
					st.violation("C03", key, fmt.Sprintf("%sresult %s, post-order evaluation gives %s", pre, got, wantVal), cs)
					return
				}
				// $Context denotes the value stored in the parser's Context field
				wantCtx := []string{"", "/ctx=<nil>", "/ctx=other:second", "/ctx=other:first"}[ctxMode]
				nact := 0
				for _, ev := range rec.Log {
					if ev.Kind == "act" {
						if nact++; ctxMode == 3 && nact > rec.SwitchAt {
							wantCtx = "/ctx=other:second" // reassigned after SwitchAt action calls
						}
					}
					if ev.Kind == "act" && ev.Ctx != wantCtx {
						st.violation("C03", key, fmt.Sprintf("%saction received context %q, Parser.Context holds %q", pre, ev.Ctx, wantCtx), cs)
						return
					}
				}
			}
			st.dist(strings.Join(wantCalls, " ") + "=" + wantVal)
			if len(wantCalls) >= 3 {
				st.sample(map[string]any{"grammar": it.Text, "tokens": strings.Join(seq, " "), "calls": wantCalls, "result": wantVal})
			}
			// error clause: fail the j-th action call
			for j := 1; j <= len(wantCalls); j++ {
				rec := &rt.Recorder{FailAt: j}
				res := im.NewParser().Parse(seqTypes(im, seq), rec, 0, len(seq)+4)
				st.add("injected_failures", 1)
				cs := map[string]any{"tokens": append([]string(nil), seq...), "log": logStr(rec), "fail_at": j}
				nActs := len(renderCalls(rec))
				last := ""
				if len(rec.Log) > 0 {
					last = rec.Log[len(rec.Log)-1].Kind
				}
				switch {
				case res.Panic != "" || res.Budget:
					st.violation("C03", key+fmt.Sprint(" fail", j), fmt.Sprintf("%saction #%d fails: Parse panicked/looped: %s", pre, j, res.Panic), cs)
				case res.Err == nil && res.ErrOther == "":
					st.violation("C03", key+fmt.Sprint(" fail", j), fmt.Sprintf("%saction #%d returns an error but Parse returns nil error", pre, j), cs)
				case res.Err != nil && !res.Err.Injected:
					st.violation("C03", key+fmt.Sprint(" fail", j), fmt.Sprintf("%saction #%d returns an error but the error returned by Parse does not carry it (Err=%q)", pre, j, res.Err.ErrText), cs)
				case nActs != j:
					st.violation("C03", key+fmt.Sprint(" fail", j), fmt.Sprintf("%saction #%d fails but %d actions ran", pre, j, nActs), cs)
				case last != "act":
					st.violation("C03", key+fmt.Sprint(" fail", j), fmt.Sprintf("%saction #%d fails but the scanner was called afterwards", pre, j), cs)
				}
			}
		}
		if only, ok := spec.Opt["only_tokens"].([]any); ok {
			for _, t := range only {
				seq = append(seq, fmt.Sprint(t))
			}
			for _, t := range seq {
				e.Extend(t)
			}
			check()
			return
		}
		check()
		var walk func(d int)
		walk = func(d int) {
			if d == n {
				return
			}
			for _, t := range terms {
				if st.enough() {
					return
				}
				seq = append(seq, t)
				if e.Extend(t) {
					check()
					walk(d + 1)
				}
				e.Pop()
				seq = seq[:len(seq)-1]
			}
		}
		walk(0)
		for _, sent := range c.CoverSentences() {
			if len(sent) <= n || st.enough() {
				continue
			}
			st.add("cover_sentences", 1)
			seq = sent
			e = c.NewEarley()
			for _, t := range sent {
				e.Extend(t)
			}
			check()
		}
	}
}
