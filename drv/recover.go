package drv

import (
	"fmt"
	"strings"

	"verif/corp"
	"verif/gram"
	"verif/ref"
	"verif/rt"
)

// render gives attributes the canonical string form shared with the reference machines.
func render(v any) string { return rt.Render(v) }

func renderCalls(rec *rt.Recorder) []string {
	var out []string
	for _, e := range rec.Log {
		if e.Kind == "act" {
			out = append(out, render(&rt.Node{Alt: e.N, Kids: e.Args}))
		}
	}
	return out
}

// twin returns the grammar without its error alternatives, or nil if that leaves a used non-terminal undefined.
func twin(g *gram.Grammar) *gram.Grammar {
	t := &gram.Grammar{Lex: g.Lex, Header: g.Header}
	for _, a := range g.Alts {
		if !a.Err {
			t.Alts = append(t.Alts, a)
		}
	}
	if len(t.Alts) == 0 || t.Alts[0].Head != g.Alts[0].Head {
		return nil
	}
	if len(ref.NewCFG(t).Undefined()) > 0 {
		return nil
	}
	return t
}

func init() {
	// recover: every token sequence up to N through the real Parse of a grammar with error alternatives,
	// against the reference recovery machine (C07); inertness against the twin grammar without error alternatives.
	tasks["recover"] = func(spec *corp.Spec, it *corp.Item, im *rt.Impl) {
		st := newStats(it)
		defer st.flush()
		if im.NewParser == nil {
			return
		}
		if msg := bindParserTables(it, im); msg != "" {
			if it.Par != nil && it.Par.Zip {
				// for -zip the reader decodes the emitted blob itself; the generated init() decoding it differently
				// is a finding about the generated code (the flag changes behaviour), not about the reader
				st.violation("C12", it.ID+" zip-decode", "tables decoded by the generated init() differ from the data the generator encoded ("+msg+")", map[string]any{"mismatch": msg})
			} else {
				emit(&Out{Item: it.ID, Kind: "inconsistent", What: msg})
				return
			}
		}
		c := ref.NewCFG(it.G)
		lr, err := c.NewLR(0)
		if err != nil {
			emit(&Out{Item: it.ID, Kind: "inconsistent", What: err.Error()})
			return
		}
		if cs, acc := lr.ConflictStates(); len(cs) > 0 {
			// only items generated with -a may have conflicts; the recovery rule then runs over the resolved tables
			auto := false
			for _, f := range it.Flags {
				if f == "-a" {
					auto = true
				}
			}
			if !auto || acc {
				emit(&Out{Item: it.ID, Kind: "inconsistent", What: "ErrFam grammar has conflicts"})
				return
			}
		}
		var terms []string
		for _, t := range c.Terms {
			if t != "error" {
				terms = append(terms, t)
			}
		}
		// alternative index mapping for the twin (its alternatives are a subsequence of the original's)
		var tw *gram.Grammar
		var twC *ref.CFG
		var twLR *ref.LR
		var twAlt []int
		if tw = twin(it.G); tw != nil {
			twC = ref.NewCFG(tw)
			twLR, _ = twC.NewLR(0)
			if twLR != nil {
				if cs, _ := twLR.ConflictStates(); len(cs) > 0 {
					twLR = nil
				}
			}
			for i, a := range it.G.Alts {
				if !a.Err {
					twAlt = append(twAlt, i)
				}
			}
		}
		n := spec.N
		for n > 2 && ipow(len(terms), n) > 30000 {
			n--
		}
		var seq []string
		check := func() {
			st.add("sequences", 1)
			rec := &rt.Recorder{}
			res := im.NewParser().Parse(seqTypes(im, seq), rec, 0, len(seq)+4)
			want := ref.Recover(c, lr, seq)
			key := it.ID + " [" + strings.Join(seq, " ") + "]"
			cs := func(what string) map[string]any {
				return map[string]any{"tokens": append([]string(nil), seq...), "log": logStr(rec), "what": what,
					"reference": fmt.Sprintf("ok=%v value=%s scans=%d calls=%v", want.OK, want.Value, want.Scans, want.Calls)}
			}
			pre := fmt.Sprintf("tokens [%s]: ", strings.Join(seq, " "))
			switch {
			case res.Panic != "":
				st.violation("C07", key, pre+"Parse panicked: "+res.Panic, cs("panic"))
				return
			case res.Budget:
				st.violation("C07", key, pre+"Parse does not terminate (scan budget exceeded)", cs("loop"))
				return
			}
			if want.Loop || want.Bad != "" {
				emit(&Out{Item: it.ID, Kind: "inconsistent", What: "reference recovery machine: " + want.Bad})
				return
			}
			ok := res.Err == nil && res.ErrOther == ""
			calls := renderCalls(rec)
			if res.Unstable != "" {
				st.violation("C07", key+" unstable", pre+"an error attribute does not keep what it recorded: "+res.Unstable, cs("unstable"))
				return
			}
			switch {
			case ok != want.OK:
				st.violation("C07", key, fmt.Sprintf("%sParse error=%v, the recovery rule gives error=%v", pre, !ok, !want.OK), cs("verdict"))
			case strings.Join(calls, " ") != strings.Join(want.Calls, " "):
				st.violation("C07", key, fmt.Sprintf("%saction calls %v, the recovery rule gives %v", pre, calls, want.Calls), cs("calls"))
			case ok && render(res.Value) != want.Value:
				st.violation("C07", key, fmt.Sprintf("%sresult %s, the recovery rule gives %s", pre, render(res.Value), want.Value), cs("value"))
			case res.Scans != want.Scans:
				st.violation("C07", key, fmt.Sprintf("%s%d tokens consumed, the recovery rule consumes %d", pre, res.Scans, want.Scans), cs("scans"))
			default:
				cls := "clean"
				switch {
				case want.Recoveries > 1:
					cls = "recovered-many"
				case want.Recoveries == 1 && want.OK:
					cls = "recovered-once"
				case want.Recoveries >= 1:
					cls = "recovered-then-failed"
				case !want.OK:
					cls = "no-recovery"
				}
				st.add("class_"+cls, 1)
				st.dist(cls + strings.Join(calls, " "))
				if want.Recoveries > 0 && want.OK {
					st.sample(map[string]any{"grammar": it.Text, "tokens": strings.Join(seq, " "), "calls": calls, "result": want.Value})
				}
			}
			// inertness: on inputs without syntax errors the parser behaves as if the error alternatives were absent
			if twLR != nil && twC.Accepts(seq) {
				st.add("inert_checked", 1)
				d := ref.Drive(twC, twLR, seq, false)
				var wantAlts []int
				for _, p := range d.Reduces {
					wantAlts = append(wantAlts, twAlt[twC.Prods[p].Alt])
				}
				if !ok || !intsEq(actLog(rec), wantAlts) {
					st.violation("C07", key+" inert", fmt.Sprintf("%sinput has no syntax error, yet error=%v reductions=%v; without the error alternatives: reductions=%v", pre, !ok, actLog(rec), wantAlts), cs("inert"))
				}
			}
		}
		inject, _ := spec.Opt["inject"].(bool)
		// C03's error clause on grammars WITH error alternatives: whichever action occurrence fails, Parse stops, runs
		// no further action, does not scan on, and returns an error that carries it (recovery must not swallow it)
		injectCheck := func() {
			base := &rt.Recorder{}
			im.NewParser().Parse(seqTypes(im, seq), base, 0, len(seq)+4)
			m := len(renderCalls(base))
			pre := fmt.Sprintf("tokens [%s]: ", strings.Join(seq, " "))
			for j := 1; j <= m; j++ {
				rec := &rt.Recorder{FailAt: j}
				res := im.NewParser().Parse(seqTypes(im, seq), rec, 0, len(seq)+4)
				st.add("injected_failures", 1)
				key := fmt.Sprintf("%s [%s] fail%d", it.ID, strings.Join(seq, " "), j)
				cs := map[string]any{"tokens": append([]string(nil), seq...), "log": logStr(rec), "fail_at": j}
				nActs := len(renderCalls(rec))
				last := ""
				if len(rec.Log) > 0 {
					last = rec.Log[len(rec.Log)-1].Kind
				}
				switch {
				case res.Panic != "" || res.Budget:
					st.violation("C03", key, fmt.Sprintf("%saction #%d fails: Parse panicked/looped: %s", pre, j, res.Panic), cs)
				case res.Err == nil && res.ErrOther == "":
					st.violation("C03", key, fmt.Sprintf("%saction #%d returns an error but Parse returns a nil error (log: %s)", pre, j, logStr(rec)), cs)
				case res.Err != nil && !res.Err.Injected:
					st.violation("C03", key, fmt.Sprintf("%saction #%d returns an error but the error returned by Parse does not carry it (Err=%q)", pre, j, res.Err.ErrText), cs)
				case nActs != j:
					st.violation("C03", key, fmt.Sprintf("%saction #%d fails but %d actions ran", pre, j, nActs), cs)
				case last != "act":
					st.violation("C03", key, fmt.Sprintf("%saction #%d fails but the scanner was called afterwards", pre, j), cs)
				default:
					st.dist(fmt.Sprint("inject", j, m))
				}
			}
		}
		step := func() {
			if inject {
				st.add("sequences", 1)
				injectCheck()
			} else {
				check()
			}
		}
		if only, ok := spec.Opt["only_tokens"].([]any); ok {
			for _, t := range only {
				seq = append(seq, fmt.Sprint(t))
			}
			step()
			return
		}
		step()
		var walk func(d int)
		walk = func(d int) {
			if d == n {
				return
			}
			for _, t := range terms {
				if st.enough() {
					return
				}
				seq = append(seq, t)
				step()
				walk(d + 1)
				seq = seq[:len(seq)-1]
			}
		}
		walk(0)
	}
}
