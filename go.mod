module verif

go 1.24
