// Package ev holds the plumbing shared by all checks: evidence files, replay files,
// known findings and the exit protocol (VIOLATION / KNOWN-FINDING lines).
package ev

import (
	"crypto/sha256"
	"encoding/hex"
	"encoding/json"
	"fmt"
	"os"
	"path/filepath"
	"sort"
	"strconv"
	"sync"
	"time"
)

// Root is the /verif directory (overridable for tests of the harness itself).
var Root = func() string {
	if r := os.Getenv("VERIF_ROOT"); r != "" {
		return r
	}
	return "/verif"
}()

// Out is where evidence and replay files are written (VERIF_OUT overrides; used when the harness itself is exercised
// against scratch worktrees in parallel).
var Out = func() string {
	if r := os.Getenv("VERIF_OUT"); r != "" {
		return r
	}
	return Root
}()

// Run collects what one check run covered.
type Run struct {
	mu         sync.Mutex
	Property   string
	Tier       string
	Level      string
	Seed       int
	start      time.Time
	Cov        map[string]any
	Assume     []string
	samples    []any
	distinct   map[string]struct{}
	violations []Violation
	known      map[string]string // finding id -> what
	counters   map[string]int64
	Exhaustive bool
	caps       []string
}

type Violation struct {
	Key    string // stable identity of the failing case (used for known-finding matching)
	Replay string
	What   string
}

func NewRun(prop, tier, level string) *Run {
	seed, _ := strconv.Atoi(os.Getenv("VERIF_SEED"))
	return &Run{Property: prop, Tier: tier, Level: level, Seed: seed, start: time.Now(),
		Cov: map[string]any{}, distinct: map[string]struct{}{}, known: map[string]string{},
		counters: map[string]int64{}, Exhaustive: true}
}

func (r *Run) Add(name string, n int64) {
	r.mu.Lock()
	r.counters[name] += n
	r.mu.Unlock()
}

func (r *Run) Get(name string) int64 {
	r.mu.Lock()
	defer r.mu.Unlock()
	return r.counters[name]
}

func (r *Run) Set(name string, v any) {
	r.mu.Lock()
	r.Cov[name] = v
	r.mu.Unlock()
}

// Distinct records one distinct non-trivial case (by key).
func (r *Run) Distinct(key string) {
	r.mu.Lock()
	if len(r.distinct) < 2_000_000 {
		r.distinct[key] = struct{}{}
	}
	r.mu.Unlock()
}

func (r *Run) Sample(s any) {
	r.mu.Lock()
	if len(r.samples) < 12 {
		r.samples = append(r.samples, s)
	}
	r.mu.Unlock()
}

func (r *Run) Assumption(s string) {
	r.mu.Lock()
	for _, a := range r.Assume {
		if a == s {
			r.mu.Unlock()
			return
		}
	}
	r.Assume = append(r.Assume, s)
	r.mu.Unlock()
}

// Cap records that a bound/time cap was hit: the run is then not exhaustive.
func (r *Run) Cap(s string) {
	r.mu.Lock()
	r.Exhaustive = false
	r.caps = append(r.caps, s)
	r.mu.Unlock()
}

// Replay is the content of a replay file.
type Replay struct {
	Property string         `json:"property"`
	Kind     string         `json:"kind"`
	Key      string         `json:"key"`
	What     string         `json:"what"`
	Case     map[string]any `json:"case"`
	Tree     string         `json:"tree,omitempty"`
}

// Violate records a confirmed violation, writing its replay file.
func (r *Run) Violate(kind, key, what string, c map[string]any) {
	if os.Getenv("VERIF_WARMUP") != "" {
		return
	}
	rp := Replay{Property: r.Property, Kind: kind, Key: key, What: what, Case: c}
	h := sha256.Sum256([]byte(kind + "\x00" + key))
	path := filepath.Join(Out, "replays", fmt.Sprintf("%s-%s.json", r.Property, hex.EncodeToString(h[:6])))
	os.MkdirAll(filepath.Dir(path), 0o777)
	b, _ := json.MarshalIndent(rp, "", " ")
	os.WriteFile(path, b, 0o666)
	r.mu.Lock()
	r.violations = append(r.violations, Violation{Key: key, Replay: path, What: what})
	r.mu.Unlock()
}

func (r *Run) NumViolations() int {
	r.mu.Lock()
	defer r.mu.Unlock()
	return len(r.violations)
}

// Finding is one entry of known_findings.json.
type Finding struct {
	Status   string `json:"status"` // known | fixed
	Property string `json:"property"`
	ID       string `json:"id"`
	Match    string `json:"match"` // exact violation key, or "rule:<name>"
	What     string `json:"what"`
	Commit   string `json:"commit,omitempty"`
}

func LoadFindings() []Finding {
	b, err := os.ReadFile(filepath.Join(Root, "known_findings.json"))
	if err != nil {
		return nil
	}
	var f struct {
		Findings []Finding `json:"findings"`
	}
	if err := json.Unmarshal(b, &f); err != nil {
		fmt.Fprintln(os.Stderr, "known_findings.json:", err)
		os.Exit(3)
	}
	return f.Findings
}

// Finish writes the evidence file, prints KNOWN-FINDING / VIOLATION lines and returns the exit code.
// ruleMatch decides named attribution rules ("rule:<name>") for a violation; may be nil.
func (r *Run) Finish(ruleMatch func(rule string, v Violation) bool) int {
	if os.Getenv("VERIF_WARMUP") != "" {
		// setup runs every quick check once to warm the build caches; nothing is recorded or reported
		fmt.Printf("%s warm-up run done in %.1fs\n", r.Property, time.Since(r.start).Seconds())
		return 0
	}
	findings := LoadFindings()
	var unlisted []Violation
	matched := map[string]Finding{}
	for _, v := range r.violations {
		hit := false
		for _, f := range findings {
			if f.Status != "known" || f.Property != r.Property {
				continue
			}
			if f.Match == v.Key || (len(f.Match) > 5 && f.Match[:5] == "rule:" && ruleMatch != nil && ruleMatch(f.Match[5:], v)) {
				matched[f.ID] = f
				hit = true
				break
			}
		}
		if !hit {
			unlisted = append(unlisted, v)
		}
	}
	cov := r.Cov
	for k, v := range r.counters {
		cov[k] = v
	}
	if _, ok := cov["evaluations"]; !ok {
		cov["evaluations"] = r.counters["evaluations"]
	}
	cov["distinct_nontrivial"] = len(r.distinct)
	if len(r.samples) == 0 {
		r.samples = append(r.samples, "no case explored")
	}
	cov["samples"] = r.samples
	cov["exhaustive"] = r.Exhaustive
	if len(r.caps) > 0 {
		cov["caps_hit"] = r.caps
	}
	ids := []string{}
	for id := range matched {
		ids = append(ids, id)
	}
	sort.Strings(ids)
	cov["known_findings_matched"] = ids
	out := map[string]any{
		"property_id": r.Property, "tier": r.Tier, "seed": r.Seed, "level": r.Level,
		"coverage": cov, "assumptions": r.Assume, "wall_s": time.Since(r.start).Seconds(),
		"violations": len(unlisted),
	}
	if r.Assume == nil {
		out["assumptions"] = []string{}
	}
	b, _ := json.MarshalIndent(out, "", " ")
	os.MkdirAll(filepath.Join(Out, "evidence"), 0o777)
	if err := os.WriteFile(filepath.Join(Out, "evidence", r.Property+".json"), append(b, '\n'), 0o666); err != nil {
		fmt.Fprintln(os.Stderr, "evidence:", err)
		return 3
	}
	for _, id := range ids {
		fmt.Printf("KNOWN-FINDING: property=%s %s: %s\n", r.Property, id, matched[id].What)
	}
	sort.Slice(unlisted, func(i, j int) bool { return unlisted[i].Key < unlisted[j].Key })
	for i, v := range unlisted {
		if i >= 10 {
			fmt.Printf("... %d more violations\n", len(unlisted)-i)
			break
		}
		fmt.Printf("VIOLATION property=%s replay=%s\n", r.Property, v.Replay)
		fmt.Printf("  %s\n", v.What)
	}
	fmt.Printf("%s %s: %d violations (%d matched known findings), exhaustive=%v, %.1fs\n", r.Property, r.Tier,
		len(unlisted), len(r.violations)-len(unlisted), r.Exhaustive, time.Since(r.start).Seconds())
	if len(unlisted) > 0 {
		return 1
	}
	return 0
}

// Inconsistent aborts with the harness-inconsistency exit code (never a VIOLATION).
func Inconsistent(format string, a ...any) {
	fmt.Fprintf(os.Stderr, "HARNESS-INCONSISTENT: "+format+"\n", a...)
	os.Exit(3)
}
