package gram

import (
	"fmt"
	"strings"
)

// WithRecActions returns a copy of g in which every alternative carries the recording action
// rt.A($Context, <index of the alternative>, $0, $1, ...). For error alternatives $0 is the error attribute.
func WithRecActions(g *Grammar) *Grammar {
	out := &Grammar{Lex: g.Lex, Header: g.Header}
	for i, a := range g.Alts {
		n := len(a.Body)
		if a.Err {
			n++
		}
		args := []string{"$Context", fmt.Sprint(i)}
		for k := 0; k < n; k++ {
			args = append(args, fmt.Sprintf("$%d", k))
		}
		b := a
		b.Action = "rt.A(" + strings.Join(args, ", ") + ")"
		out.Alts = append(out.Alts, b)
	}
	return out
}

// WithActions assigns actions by mode: "explicit" ($i everywhere), "token" ($Ti on terminals), "none" (no actions:
// defaults), "mixed" (explicit on even alternatives, none on odd ones). Returns the grammar and whether the header
// must import the token package.
func WithActions(g *Grammar, mode string) (*Grammar, bool) {
	out := &Grammar{Lex: g.Lex, Header: g.Header}
	heads := map[string]bool{}
	for _, a := range g.Alts {
		heads[a.Head] = true
	}
	tokImp := false
	for i, a := range g.Alts {
		b := a
		explicit := mode == "explicit" || mode == "token" || mode == "literal" || (mode == "mixed" && i%2 == 0)
		if explicit {
			args := []string{"$Context", fmt.Sprint(i)}
			k := 0
			if a.Err {
				args = append(args, "$0")
				k = 1
			}
			for j, s := range a.Body {
				if mode == "token" && (s.Str || !heads[s.Name]) {
					args = append(args, fmt.Sprintf("$T%d", j+k))
					tokImp = true
				} else {
					args = append(args, fmt.Sprintf("$%d", j+k))
				}
			}
			b.Action = "rt.A(" + strings.Join(args, ", ") + ")"
			if mode == "literal" {
				// the action also carries a Go literal from the menu next to the hex spelling of its value: the action
				// text must reach the generated code unaltered (rt.L compares the two at run time)
				l := ActionLiterals[i%len(ActionLiterals)]
				b.Action = fmt.Sprintf("rt.L(%s, \"%x\").A(%s)", l.Src, l.Val, strings.Join(args, ", "))
			}
		} else {
			b.Action = ""
		}
		out.Alts = append(out.Alts, b)
	}
	return out, tokImp
}

// ActionLiteral is a Go string-valued expression (Src, as written in the action) and its value.
type ActionLiteral struct{ Src, Val string }

// ActionLiterals: blanks, tabs and line breaks inside interpreted, raw and rune literals, format verbs, template
// syntax, quotes, non-ASCII text.
var ActionLiterals = []ActionLiteral{
	{`"a  b"`, "a  b"},
	{"\"a\tb\"", "a\tb"}, // a real TAB inside an interpreted literal
	{"`r  w\t.\n  x`", "r  w\t.\n  x"},
	{`"%s %d %% %v"`, "%s %d %% %v"},
	{`"{{.}} {{end}}"`, "{{.}} {{end}}"},
	{`"q\"q" + "'"`, `q"q'`},
	{`string(' ') + string('\t') + "   "`, " \t   "},
	{`"é→𝄞"`, "é→𝄞"},
	{`"<< <"`, "<< <"},
	{`"\\n\\"`, `\n\`},
	{`" lead and trail "`, " lead and trail "},
	{`"X[0] X[1]"`, "X[0] X[1]"},
}
