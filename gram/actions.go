package gram

import (
	"fmt"
	"strings"
)

// WithRecActions returns a copy of g in which every alternative carries the recording action
// rt.A($Context, <index of the alternative>, $0, $1, ...). For error alternatives $0 is the error attribute.
func WithRecActions(g *Grammar) *Grammar {
	out := &Grammar{Lex: g.Lex, Header: g.Header}
	for i, a := range g.Alts {
		n := len(a.Body)
		if a.Err {
			n++
		}
		args := []string{"$Context", fmt.Sprint(i)}
		for k := 0; k < n; k++ {
			args = append(args, fmt.Sprintf("$%d", k))
		}
		b := a
		b.Action = "rt.A(" + strings.Join(args, ", ") + ")"
		out.Alts = append(out.Alts, b)
	}
	return out
}
