package gram

import (
	"fmt"
	"strings"
)

// Mutant is one edited token list of a seed.
type Mutant struct {
	Kind       string // del, sub, ins, rename, dup
	Desc       string
	Toks       []Tok
	TouchesSDT bool // an action or file header was deleted, replaced or inserted (emitted code need not compile then)
}

// KindMenu: one representative token per front-end token kind.
var KindMenu = []Tok{
	{"tokId", "zz"}, {"prodId", "Zz"}, {"regDefId", "_zz"}, {"ignoredTokId", "!zz"}, {"char_lit", "'z'"}, {"string_lit", `"z"`},
	{"g_sdt_lit", "<< nil, nil >>"}, {":", ":"}, {";", ";"}, {"|", "|"}, {".", "."}, {"-", "-"}, {"[", "["}, {"]", "]"}, {"{", "{"}, {"}", "}"}, {"(", "("}, {")", ")"},
}

// JunkMenu: characters that are not part of any front-end token (a file containing one outside literals, comments
// and actions violates the documented syntax at the token level).
var JunkMenu = []string{"/", "<", ",", "?", "@", "#", "7", "\\", "=", "+", "*", "~", "$", "%", "^", "&", "<=", "\x01",
	// characters an editor or a copy from a web page leaves behind and that look like white space: a byte order mark
	// (anywhere, not only at the beginning), no-break and zero-width spaces, line and next-line separators, VT, FF, DEL
	"\uFEFF", "\u00A0", "\u200B", "\u2028", "\u0085", "\v", "\f", "\x7f"}

// BadCharLits / BadStringLits: texts that look like literals and are not (spec/gocc2.ebnf, "Lexical items").
var BadCharLits = []string{`'\x41B'`, `'\nxyz'`, `'ab'`, `'\q'`, `'\18'`, `'\400'`, `'\ud800'`, `'\U00110000'`, `''`, `'\x4'`, `'\u12'`}
var BadStringLits = []string{`"\q"`, `"\400"`, `"\ud800"`, `"a\U00110000"`, `"\x4"`, `"\u12"`}

func cloneToks(t []Tok) []Tok { return append([]Tok(nil), t...) }

// Mutants enumerates every single-token edit, every reference renaming and every definition duplication.
func Mutants(toks []Tok) []Mutant {
	var out []Mutant
	for i, t := range toks {
		m := cloneToks(toks)
		m = append(m[:i], m[i+1:]...)
		out = append(out, Mutant{"del", fmt.Sprintf("delete #%d %s", i, t.Text), m, t.Kind == "g_sdt_lit"})
	}
	for i, t := range toks {
		for _, k := range KindMenu {
			if k.Kind == t.Kind {
				continue
			}
			m := cloneToks(toks)
			m[i] = k
			out = append(out, Mutant{"sub", fmt.Sprintf("replace #%d %s by %s", i, t.Text, k.Text), m, t.Kind == "g_sdt_lit" || k.Kind == "g_sdt_lit"})
		}
	}
	for i := 0; i <= len(toks); i++ {
		for _, k := range KindMenu {
			m := append(cloneToks(toks[:i]), k)
			m = append(m, toks[i:]...)
			out = append(out, Mutant{"ins", fmt.Sprintf("insert %s at gap %d", k.Text, i), m, k.Kind == "g_sdt_lit"})
		}
	}
	for i := 0; i <= len(toks); i++ {
		for _, j := range JunkMenu {
			m := append(cloneToks(toks[:i]), Tok{"junk", j})
			m = append(m, toks[i:]...)
			out = append(out, Mutant{"junk", fmt.Sprintf("insert stray %q at gap %d", j, i), m, false})
		}
	}
	// malformed lexemes: a character literal / string literal replaced by text that is not one by the lexical rules of
	// spec/gocc2.ebnf (characters after a complete character, unknown or out-of-range escapes, too few digits, an empty
	// or unterminated literal) - the first two literals of each kind
	nc, ns := 0, 0
	for i, t := range toks {
		var menu []string
		switch {
		case t.Kind == "char_lit" && nc < 2:
			nc++
			menu = BadCharLits
		case t.Kind == "string_lit" && ns < 2:
			ns++
			menu = BadStringLits
		}
		for _, l := range menu {
			m := cloneToks(toks)
			m[i] = Tok{"junk", l}
			out = append(out, Mutant{"badlex", fmt.Sprintf("replace #%d %s by the malformed lexeme %s", i, t.Text, l), m, false})
		}
	}
	// reference renaming: each use (not a production head) of a production or regular-definition name
	for i, t := range toks {
		if (t.Kind == "prodId" || t.Kind == "regDefId") && !(i+1 < len(toks) && toks[i+1].Kind == ":") {
			m := cloneToks(toks)
			if t.Kind == "prodId" {
				m[i].Text = "Undefined9"
			} else {
				m[i].Text = "_undefined9"
			}
			out = append(out, Mutant{"rename", fmt.Sprintf("rename use #%d of %s", i, t.Text), m, false})
			if t.Kind == "prodId" {
				// a production name need not begin with an ASCII letter
				m2 := cloneToks(toks)
				m2[i].Text = "\u00c4rger9"
				out = append(out, Mutant{"rename", fmt.Sprintf("rename use #%d of %s to a name with a non-ASCII upper-case initial", i, t.Text), m2, false})
			}
		}
	}
	// malformed identifiers: '!' only ever BEGINS a name (ignoredTokId : '!' _tokId); by the longest-match reading of
	// the documented lexical rules x!y is the token x followed by the ignored-token name !y, and no sentence has an
	// identifier directly followed by an ignored-token name. Every occurrence of the first name of each kind is
	// respelled consistently (so that nothing but the lexical shape is wrong with the file).
	seenKind := map[string]bool{}
	for _, t := range toks {
		if (t.Kind == "tokId" || t.Kind == "prodId" || t.Kind == "regDefId" || t.Kind == "ignoredTokId") && !seenKind[t.Kind] && t.Text != "empty" && t.Text != "error" {
			seenKind[t.Kind] = true
			bad := t.Text + "!x"
			m := cloneToks(toks)
			for i := range m {
				if m[i].Kind == t.Kind && m[i].Text == t.Text {
					m[i] = Tok{"junk", bad}
				}
			}
			out = append(out, Mutant{"badid", fmt.Sprintf("respell every %s as %s", t.Text, bad), m, false})
		}
	}
	// ... and to the text of each string literal of the file that is spelled like such a name (a literal is a token,
	// it does not define the production or regular definition of the same spelling)
	for _, l := range toks {
		if l.Kind != "string_lit" || len(l.Text) < 3 {
			continue
		}
		body := l.Text[1 : len(l.Text)-1]
		kind := ""
		switch {
		case body[0] >= 'A' && body[0] <= 'Z':
			kind = "prodId"
		case body[0] == '_' && len(body) > 1:
			kind = "regDefId"
		}
		okName := kind != ""
		for _, c := range body {
			if !(c == '_' || c >= '0' && c <= '9' || c >= 'a' && c <= 'z' || c >= 'A' && c <= 'Z') {
				okName = false
			}
		}
		if !okName {
			continue
		}
		for i, t := range toks {
			if t.Kind == kind && t.Text != body && !(i+1 < len(toks) && toks[i+1].Kind == ":") {
				m := cloneToks(toks)
				m[i].Text = body
				out = append(out, Mutant{"rename", fmt.Sprintf("rename use #%d of %s to %s, the text of a string literal", i, t.Text, body), m, false})
			}
		}
	}
	// duplication of each lexical definition
	for _, p := range productions(toks) {
		if h := toks[p[0]].Kind; h == "tokId" || h == "regDefId" || h == "ignoredTokId" {
			m := append(cloneToks(toks[:p[1]+1]), toks[p[0]:p[1]+1]...)
			m = append(m, toks[p[1]+1:]...)
			out = append(out, Mutant{"dup", "duplicate definition of " + toks[p[0]].Text, m, false})
		}
	}
	// ... and a second, DIFFERENT definition of the same name placed at the very beginning and after the last lexical
	// production (a later definition must not silently replace or be replaced by an earlier one)
	ps := productions(toks)
	lastLex := -1
	for _, p := range ps {
		if h := toks[p[0]].Kind; h == "tokId" || h == "regDefId" || h == "ignoredTokId" {
			lastLex = p[1]
		}
	}
	for _, p := range ps {
		if h := toks[p[0]].Kind; h == "tokId" || h == "regDefId" || h == "ignoredTokId" {
			other := []Tok{toks[p[0]], {":", ":"}, {"char_lit", "'z'"}, {"char_lit", "'q'"}, {";", ";"}}
			m := append(cloneToks(other), toks...)
			out = append(out, Mutant{"dup", "second definition of " + toks[p[0]].Text + " at the beginning", m, false})
			if lastLex >= 0 && lastLex != p[1] {
				m = append(cloneToks(toks[:lastLex+1]), other...)
				m = append(m, toks[lastLex+1:]...)
				out = append(out, Mutant{"dup", "second definition of " + toks[p[0]].Text + " after the last lexical production", m, false})
			}
		}
	}
	return out
}

// productions returns [start, end] token index pairs of the productions (head ':' ... ';') of a token list; tokens
// that are not part of such a shape are skipped.
func productions(toks []Tok) [][2]int {
	var out [][2]int
	for i := 0; i < len(toks); {
		if i+1 < len(toks) && toks[i+1].Kind == ":" {
			j := i + 2
			for j < len(toks) && toks[j].Kind != ";" {
				j++
			}
			if j < len(toks) {
				out = append(out, [2]int{i, j})
				i = j + 1
				continue
			}
		}
		i++
	}
	return out
}

// SymbolErrors applies the symbol-table rules of C14 to a SYNTACTICALLY well-formed token list: use of an
// undefined syntax production, use of an undefined regular definition, a token / ignored token / regular
// definition defined twice. Returns a description of each violation.
func SymbolErrors(toks []Tok) []string {
	var errs []string
	defs := map[string]int{}
	prodDefs := map[string]bool{}
	ps := productions(toks)
	for _, p := range ps {
		h := toks[p[0]]
		switch h.Kind {
		case "tokId", "regDefId", "ignoredTokId":
			defs[h.Text]++
		case "prodId":
			prodDefs[h.Text] = true
		}
	}
	for n, c := range defs {
		if c > 1 {
			errs = append(errs, "duplicate definition of "+n)
		}
	}
	for _, p := range ps {
		h := toks[p[0]]
		for _, t := range toks[p[0]+2 : p[1]] {
			switch {
			case h.Kind == "prodId" && t.Kind == "prodId" && !prodDefs[t.Text]:
				errs = append(errs, "undefined production "+t.Text)
			case h.Kind != "prodId" && t.Kind == "regDefId" && defs[t.Text] == 0:
				errs = append(errs, "undefined regular definition "+t.Text)
			}
		}
	}
	return errs
}

// SpecTerminals maps a token list to the terminal names of spec/gocc2.ebnf as gocc's scanner classifies them.
func SpecTerminals(toks []Tok) []string {
	out := make([]string, len(toks))
	for i, t := range toks {
		out[i] = t.Kind
	}
	return out
}

// ByteMutants: every byte deleted, every byte replaced by each byte of the menu.
func ByteMutants(text string) []string {
	menu := []byte{0, 0xFF, '\'', '"', '`', '<', '>', '/', '*', '\\', '\n', '{', '!', '_'}
	var out []string
	for i := 0; i < len(text); i++ {
		out = append(out, text[:i]+text[i+1:])
		for _, b := range menu {
			if text[i] != b {
				out = append(out, text[:i]+string([]byte{b})+text[i+1:])
			}
		}
	}
	return out
}

var _ = strings.Join
