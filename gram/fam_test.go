package gram

import "testing"

func TestCounts(t *testing.T) {
	t.Log("L1 quick", len(L1(false)), "thorough", len(L1(true)))
	t.Log("L2 quick", len(L2(false)), "thorough", len(L2(true)))
	t.Log("L3 quick", len(L3(false)), "thorough", len(L3(true)))
	t.Log("L4", len(L4()), "L5", len(L5()))
	for _, g := range L1(false)[:5] {
		t.Log(g.Text())
	}
}

func TestSyn(t *testing.T) {
	t.Log("S1(2)", len(S1(2, false)), "S1(3)", len(S1(3, false)), "S1(3,undef)", len(S1(3, true)))
	t.Log(S1(3, false)[3000].Text())
	t.Log(len(S2()), S2()[24].Text())
}

func TestNewFams(t *testing.T) {
	t.Log("S3", len(S3(3)), "S4", len(S4()), "L7", len(L7()))
	t.Log(S3(3)[5].Text())
	t.Log(S4()[0].Text())
	t.Log(L7()[0].Text())
}
