package gram

import (
	"fmt"
	"regexp"
	"sort"
	"strconv"
	"strings"
)

// Family enumerators for lexical parts. Every function is a pure enumeration in canonical order.

// Trees enumerates all binary seq/alt trees with exactly n leaves drawn from atoms.
func Trees(n int, atoms []*Pat) []*Pat {
	if n == 1 {
		return append([]*Pat(nil), atoms...)
	}
	var out []*Pat
	for k := 1; k < n; k++ {
		for _, l := range Trees(k, atoms) {
			for _, r := range Trees(n-k, atoms) {
				out = append(out, Seq(l, r), AltP(l, r))
			}
		}
	}
	return out
}

var wrappers = []func(*Pat) *Pat{Opt, Rep, Grp}

// Wraps enumerates all ways of putting exactly k wrappers ([ ], { }, ( )) on nodes of t, stacking allowed.
func Wraps(t *Pat, k int) []*Pat {
	if k == 0 {
		return []*Pat{t}
	}
	var out []*Pat
	// j wrappers on this node (outermost applied last), the rest distributed over the children
	var wrapSeqs func(j int) [][]int
	wrapSeqs = func(j int) [][]int {
		if j == 0 {
			return [][]int{nil}
		}
		var r [][]int
		for _, s := range wrapSeqs(j - 1) {
			for w := range wrappers {
				r = append(r, append(append([]int(nil), s...), w))
			}
		}
		return r
	}
	for j := 0; j <= k; j++ {
		var inner []*Pat
		if t.K == "seq" || t.K == "alt" {
			rest := k - j
			for a := 0; a <= rest; a++ {
				for _, l := range Wraps(t.Sub[0], a) {
					for _, r := range Wraps(t.Sub[1], rest-a) {
						inner = append(inner, &Pat{K: t.K, Sub: []*Pat{l, r}})
					}
				}
			}
		} else if j == k {
			inner = []*Pat{t}
		}
		for _, in := range inner {
			for _, ws := range wrapSeqs(j) {
				p := in
				for _, w := range ws {
					p = wrappers[w](p)
				}
				out = append(out, p)
			}
		}
	}
	return out
}

// swapAB exchanges the letters a and b in a grammar text (used to drop mirror images).
func swapAB(s string) string {
	return strings.NewReplacer("'a'", "'b'", "'b'", "'a'").Replace(s)
}

// canonical reports whether the text is the representative of its a<->b mirror pair. Ranges 'a'-'b' make a
// text asymmetric, such texts are always kept.
func canonical(text string) bool {
	if strings.Contains(text, "'a'-'b'") {
		return true
	}
	return text <= swapAB(text)
}

var (
	A   = Lit('a')
	B   = Lit('b')
	RAB = Rng('a', 'b')
	D   = Dot()
)

func dedupe(gs []*Grammar) []*Grammar {
	seen := map[string]bool{}
	var out []*Grammar
	for _, g := range gs {
		t := g.Text()
		if !seen[t] {
			seen[t] = true
			out = append(out, g)
		}
	}
	return out
}

// L1: single token, all pattern shapes.
func L1(thorough bool) []*Grammar {
	var pats []*Pat
	full := []*Pat{A, B, RAB, D}
	small := []*Pat{A, B, D}
	add := func(n int, atoms []*Pat, maxWrap int) {
		for _, t := range Trees(n, atoms) {
			for k := 0; k <= maxWrap; k++ {
				pats = append(pats, Wraps(t, k)...)
			}
		}
	}
	add(1, full, 3)
	add(2, full, 2)
	if thorough {
		add(2, full, 3)
		add(3, full, 1)
		add(3, small, 2)
	} else {
		add(3, small, 1)
	}
	var gs []*Grammar
	for _, p := range pats {
		g := &Grammar{Lex: []LexDef{{"t", "tok", p}}}
		if canonical(g.Text()) {
			gs = append(gs, g)
		}
	}
	return dedupe(gs)
}

// smallPats: patterns of <= 2 atoms with <= 1 wrapper.
func smallPats(atoms []*Pat) []*Pat {
	var out []*Pat
	for n := 1; n <= 2; n++ {
		for _, t := range Trees(n, atoms) {
			out = append(out, Wraps(t, 0)...)
			for _, w := range Wraps(t, 1) {
				// the group wrapper adds nothing new semantically at this size; keep opt/rep
				if strings.Contains(w.String(), "( ") && w.K == "grp" {
					continue
				}
				out = append(out, w)
			}
		}
	}
	return out
}

// L2: two or three definitions (token / ignored in both declaration orders): all priority and prefix relations.
func L2(thorough bool) []*Grammar {
	ps := smallPats([]*Pat{A, B, D})
	qs := ps
	if !thorough {
		qs = []*Pat{A, B, D, Seq(A, B), Seq(A, A), AltP(A, B), Rep(A), Opt(A), Seq(A, Rep(B)), Seq(D, A), Seq(A, D), Rep(D)}
	}
	var gs []*Grammar
	for _, p := range ps {
		for _, q := range qs {
			gs = append(gs,
				&Grammar{Lex: []LexDef{{"t", "tok", p}, {"u", "tok", q}}},
				&Grammar{Lex: []LexDef{{"t", "tok", p}, {"!u", "ign", q}}},
				&Grammar{Lex: []LexDef{{"!u", "ign", q}, {"t", "tok", p}}},
			)
		}
	}
	few := []*Pat{A, Seq(A, B), Seq(A, Rep(B)), Opt(Seq(A, B)), D, Seq(D, A), AltP(A, Seq(B, A)), Rep(A)}
	if !thorough {
		few = few[:4]
	}
	for _, p := range few {
		for _, q := range few {
			for _, r := range few {
				gs = append(gs,
					&Grammar{Lex: []LexDef{{"t", "tok", p}, {"!u", "ign", q}, {"v", "tok", r}}},
					&Grammar{Lex: []LexDef{{"!u", "ign", q}, {"!w", "ign", p}, {"v", "tok", r}}})
			}
		}
	}
	var out []*Grammar
	for _, g := range gs {
		if canonical(g.Text()) {
			out = append(out, g)
		}
	}
	return dedupe(out)
}

// L3: regular definitions referenced from one or two tokens at different offsets.
func L3(thorough bool) []*Grammar {
	R := Ref("_r")
	regs := []*Pat{Seq(A, B), Seq(A, A), AltP(A, Seq(A, B)), A, Rep(A), Seq(A, Opt(B)), RAB, Seq(A, D), Opt(A)}
	uses := []*Pat{Seq(R, B), Seq(A, R), Seq(R, R), Rep(R), Seq(Opt(A), R), R, Seq(R, A, R), AltP(R, Seq(B, R)), Seq(Opt(R), A)}
	var gs []*Grammar
	for _, rg := range regs {
		for _, u1 := range uses {
			gs = append(gs, &Grammar{Lex: []LexDef{{"t", "tok", u1}, {"_r", "reg", rg}}})
			for _, u2 := range uses {
				gs = append(gs, &Grammar{Lex: []LexDef{{"t", "tok", u1}, {"u", "tok", u2}, {"_r", "reg", rg}}})
			}
		}
		// regdef inside regdef
		gs = append(gs, &Grammar{Lex: []LexDef{{"t", "tok", Seq(Ref("_s"), B)}, {"_s", "reg", Seq(A, R)}, {"_r", "reg", rg}}})
		gs = append(gs, &Grammar{Lex: []LexDef{{"t", "tok", Seq(Ref("_s"), R)}, {"_s", "reg", Rep(R)}, {"_r", "reg", rg}}})
	}
	gs = dedupe(gs)
	if !thorough {
		var q []*Grammar
		for i, g := range gs {
			if i%3 == 0 {
				q = append(q, g)
			}
		}
		gs = q
	}
	// single-character definitions (character classes) against literal patterns matching the same text, in both
	// declaration orders: priority must not depend on whether a lexeme ends through a definition
	cls := []LexDef{{"_c", "reg", RAB}, {"_d", "reg", AltP(A, B)}}
	viaDef := []*Pat{Seq(Ref("_c"), Rep(Ref("_c"))), Ref("_c"), Seq(Ref("_c"), Ref("_d")), Seq(A, Ref("_c")), Rep(Ref("_d")), Seq(Opt(A), Ref("_d"))}
	plain := []*Pat{A, Seq(A, B), Seq(A, A), B, Seq(B, A), RAB}
	for _, p := range viaDef {
		for _, q := range plain {
			gs = append(gs,
				&Grammar{Lex: append([]LexDef{{"t", "tok", p}, {"u", "tok", q}}, cls...)},
				&Grammar{Lex: append([]LexDef{{"u", "tok", q}, {"t", "tok", p}}, cls...)},
				&Grammar{Lex: append([]LexDef{{"t", "tok", p}, {"!u", "ign", q}}, cls...)})
		}
	}
	return dedupe(gs)
}

// L4: string literals of the syntax part against named patterns matching the same text.
func L4() []*Grammar {
	var gs []*Grammar
	named := []*Pat{Seq(A, B), Seq(A, Rep(RAB)), Rep(RAB), Seq(A, Opt(B)), A, Seq(D, D)}
	for _, p := range named {
		syn := []Alt{{Head: "S", Body: []Sym{{Name: "ab", Str: true}, {Name: "t"}}}, {Head: "S", Body: []Sym{{Name: "a", Str: true}}}}
		gs = append(gs, &Grammar{Lex: []LexDef{{"t", "tok", p}}, Alts: syn})
		gs = append(gs, &Grammar{Lex: []LexDef{{"t", "tok", p}, {"!w", "ign", Lit(' ')}}, Alts: syn})
		gs = append(gs, &Grammar{Lex: []LexDef{{"!w", "ign", p}, {"t", "tok", Lit('c')}}, Alts: syn})
	}
	return gs
}

// L5: UTF-8 boundaries.
func L5() []*Grammar {
	var gs []*Grammar
	edges := [][2]rune{{0x7F, 0x80}, {0x7FF, 0x800}, {0xD7FF, 0xE000}, {0xFFFF, 0x10000}, {0xFFFD, 0xFFFD}, {0x10FFFF, 0x10FFFF}, {0, 0x10FFFF}, {0, 0}, {0x80, 0x7FF}, {0x800, 0xFFFF}, {0x10000, 0x10FFFF}}
	for _, e := range edges {
		gs = append(gs, &Grammar{Lex: []LexDef{{"t", "tok", Rng(e[0], e[1])}, {"u", "tok", Seq(A, D)}}})
		gs = append(gs, &Grammar{Lex: []LexDef{{"t", "tok", Seq(Lit(e[0]), Lit(e[1]))}, {"!u", "ign", Rep(Rng(e[0], e[1]))}}})
		gs = append(gs, &Grammar{Lex: []LexDef{{"t", "tok", AltP(Lit(e[0]), Seq(Lit(e[1]), D))}, {"u", "tok", D}}})
	}
	return dedupe(gs)
}

// L9: interval arrangements. Three tokens, each a range over a universe of n points followed by its own letter, for
// every ordered triple of distinct ranges (all relative positions - disjoint, nested, staggered, touching, sharing a
// bound - in all declaration orders).
func L9(n int) []*Grammar {
	type iv struct{ lo, hi rune }
	var ivs []iv
	for lo := 0; lo < n; lo++ {
		for hi := lo; hi < n; hi++ {
			ivs = append(ivs, iv{rune('a' + lo), rune('a' + hi)})
		}
	}
	var gs []*Grammar
	for i, x := range ivs {
		for j, y := range ivs {
			for k, z := range ivs {
				if i == j || j == k || i == k {
					continue
				}
				gs = append(gs, &Grammar{Lex: []LexDef{
					{"x", "tok", Seq(Rng(x.lo, x.hi), Lit('x'))},
					{"y", "tok", Seq(Rng(y.lo, y.hi), Lit('y'))},
					{"z", "tok", Seq(Rng(z.lo, z.hi), Lit('z'))},
				}})
			}
		}
	}
	return gs
}

// L10: the realistic lexers of L6 and the boundary lexers of L5 with every character literal spelled in one style -
// octal, \x, \u, \U (both hex cases) or raw - wherever the style can express the code point.
func L10() []*Grammar {
	var gs []*Grammar
	re := regexp.MustCompile(`'(?:\\u[0-9a-fA-F]{4}|\\U[0-9a-fA-F]{8}|[^'\\])'`)
	base := append(append([]*Grammar{}, L6()...), L5()...)
	for _, style := range []string{"octal", "x", "X", "u", "U", "raw"} {
		for _, g := range base {
			if len(g.Alts) > 0 && style != "octal" {
				continue
			}
			canon := g.Text()
			changed := false
			text := re.ReplaceAllStringFunc(canon, func(lit string) string {
				cp, _, _, err := strconv.UnquoteChar(lit[1:], '\'')
				if err != nil {
					return lit
				}
				out := lit
				switch {
				case style == "octal" && cp <= 0xff:
					out = fmt.Sprintf(`'\%03o'`, cp)
				case style == "x" && cp <= 0xff:
					out = fmt.Sprintf(`'\x%02x'`, cp)
				case style == "X" && cp <= 0xff:
					out = fmt.Sprintf(`'\x%02X'`, cp)
				case style == "u" && cp <= 0xffff:
					out = fmt.Sprintf(`'\u%04X'`, cp)
				case style == "U":
					out = fmt.Sprintf(`'\U%08x'`, cp)
				case style == "raw" && cp > 0x20 && cp != '\'' && cp != '\\' && cp != 0x7f && !(cp >= 0xd800 && cp <= 0xdfff) && cp != 0xfeff:
					out = "'" + string(cp) + "'"
				}
				if out != lit {
					changed = true
				}
				return out
			})
			if !changed {
				continue
			}
			c := *g
			c.Spelled = text
			gs = append(gs, &c)
		}
	}
	return gs
}

// SortBySize orders grammars by text length, then text.
func SortBySize(gs []*Grammar) {
	sort.SliceStable(gs, func(i, j int) bool {
		a, b := gs[i].Text(), gs[j].Text()
		if len(a) != len(b) {
			return len(a) < len(b)
		}
		return a < b
	})
}

// L6: realistic seeds (a C-like lexer, identifier/number/whitespace, the lexical parts of shipped examples).
func L6() []*Grammar {
	letter := AltP(Rng('a', 'z'), Rng('A', 'Z'), Lit('_'))
	digit := Rng('0', '9')
	var gs []*Grammar
	// identifiers, numbers, whitespace
	gs = append(gs, &Grammar{Lex: []LexDef{
		{"id", "tok", Seq(letter, Rep(AltP(letter, digit)))},
		{"int", "tok", Seq(digit, Rep(digit))},
		{"!ws", "ign", AltP(Lit(' '), Lit('\t'), Lit('\n'), Lit('\r'))},
	}})
	// C-like: comments as ignored tokens, operators that are prefixes of comments, strings with escapes
	gs = append(gs, &Grammar{Lex: []LexDef{
		{"div", "tok", Lit('/')},
		{"star", "tok", Lit('*')},
		{"id", "tok", Seq(Rng('a', 'b'), Rep(Rng('a', 'b')))},
		{"str", "tok", Seq(Lit('"'), Rep(AltP(Seq(Lit('\\'), D), Rng('a', 'b'))), Lit('"'))},
		{"!line", "ign", Seq(Lit('/'), Lit('/'), Rep(D), Lit('\n'))},
		{"!block", "ign", Seq(Lit('/'), Lit('*'), Rep(AltP(Rng('a', 'b'), Lit('\n'))), Lit('*'), Lit('/'))},
		{"!ws", "ign", AltP(Lit(' '), Lit('\t'), Lit('\n'))},
	}})
	// token that is a proper prefix of an ignored lexeme (stale verdict after ignore)
	gs = append(gs, &Grammar{Lex: []LexDef{{"lt", "tok", Lit('<')}, {"!x", "ign", Seq(Lit('<'), Lit('!'))}, {"q", "tok", Lit('q')}}})
	// same with regular definitions (calc/astx style)
	gs = append(gs, &Grammar{Lex: []LexDef{
		{"_digit", "reg", Rng('0', '9')},
		{"_letter", "reg", AltP(Rng('a', 'z'), Lit('_'))},
		{"int64", "tok", Seq(Rng('1', '9'), Rep(Ref("_digit")))},
		{"id", "tok", Seq(Ref("_letter"), Rep(AltP(Ref("_letter"), Ref("_digit"))))},
		{"!whitespace", "ign", AltP(Lit(' '), Lit('\t'), Lit('\n'), Lit('\r'))},
	}})
	// more than 16 classes in the start state, ranges that begin on the last rune of an existing class
	{
		var defs []LexDef
		for i := 0; i < 10; i++ {
			defs = append(defs, LexDef{fmt.Sprintf("d%d", i), "tok", Lit(rune('0' + i))})
		}
		for i, r := range "+*/()=" {
			defs = append(defs, LexDef{fmt.Sprintf("p%d", i), "tok", Lit(r)})
		}
		defs = append(defs, LexDef{"lo", "tok", Seq(Rng('a', 'm'), Lit('x'))}, LexDef{"hi", "tok", Seq(Rng('m', 'z'), Lit('y'))},
			LexDef{"nine", "tok", Seq(Rng('9', 'A'), Lit('z'))}, LexDef{"z2", "tok", Seq(Lit('z'), Lit('z'))})
		gs = append(gs, &Grammar{Lex: defs})
	}
	// many classes in the start state (17, 33, 34, 40, 66, 70: around the capacities a growing slice passes through),
	// declared in descending and in interleaved order so that new classes are inserted in front of and between
	// existing ones
	for _, n := range []int{17, 33, 34, 40, 66, 70} {
		for _, order := range []string{"desc", "interleaved"} {
			var defs []LexDef
			for i := 0; i < n; i++ {
				k := n - 1 - i
				if order == "interleaved" {
					k = (i * 7) % n
					if n%7 == 0 {
						k = (i*3 + i/(n/3+1)) % n
					}
				}
				defs = append(defs, LexDef{fmt.Sprintf("c%d", k), "tok", Lit(rune(0x21 + 2*k))})
			}
			// distinct runes are guaranteed only if k is a permutation; fall back to descending otherwise
			seen := map[string]bool{}
			ok := true
			for _, d := range defs {
				if seen[d.Name] {
					ok = false
				}
				seen[d.Name] = true
			}
			if ok {
				gs = append(gs, &Grammar{Lex: defs})
			}
		}
	}
	// a string literal spelled like the reserved name INVALID (it shares the reserved number, known finding of C10):
	// the lexer must still cut the input where the lexemes end. (The other reserved name, the end-of-input symbol
	// U+241A, is left out: a token of that number in the middle of the input is indistinguishable from the end of
	// input for the scan loop of the check, and already recorded as C10's known finding.)
	gs = append(gs, &Grammar{
		Lex:  []LexDef{{"id", "tok", Seq(Rng('a', 'c'), Rep(Rng('a', 'c')))}},
		Alts: []Alt{{Head: "S", Body: []Sym{{Name: "INVALID", Str: true}, {Name: "id"}}}},
	})
	// character literals that agree in their low byte (U+003A / U+043A, TAB / U+2009, NUL / U+3000), alone and inside a
	// range, in both declaration orders
	for _, p := range [][2]rune{{0x3a, 0x43a}, {0x09, 0x2009}, {0x00, 0x3000}, {0x41, 0x10041}} {
		for _, swap := range []bool{false, true} {
			a, b := p[0], p[1]
			if swap {
				a, b = b, a
			}
			gs = append(gs, &Grammar{Lex: []LexDef{{"ta", "tok", Lit(a)}, {"tb", "tok", Lit(b)}, {"w", "tok", Seq(Rng(p[1]-5, p[1]+5), Lit('x'))}}},
				&Grammar{Lex: []LexDef{{"w", "tok", Seq(Rng(p[1]-5, p[1]+5), Rep(Rng(p[1]-5, p[1]+5)))}, {"ta", "tok", Seq(Lit(a), Lit(b))}, {"tb", "tok", Seq(Lit(b), Lit(a), Lit('!'))}}})
		}
	}
	// keywords as string literals vs identifiers
	gs = append(gs, &Grammar{
		Lex:  []LexDef{{"id", "tok", Seq(Rng('a', 'z'), Rep(Rng('a', 'z')))}, {"!ws", "ign", Lit(' ')}},
		Alts: []Alt{{Head: "S", Body: []Sym{{Name: "if", Str: true}, {Name: "id"}}}, {Head: "S", Body: []Sym{{Name: "i", Str: true}, {Name: "==", Str: true}, {Name: "=", Str: true}}}},
	})
	return gs
}

// L7: wide patterns - tokens with 10-12 alternatives or 10-12 terms (positions with two digits).
func L7() []*Grammar {
	var gs []*Grammar
	lit := func(i int) *Pat { return Lit(rune('a' + i)) }
	for _, n := range []int{10, 11, 12} {
		// n alternatives, the second one two characters long
		var alts []*Pat
		for i := 0; i < n; i++ {
			if i == 1 {
				alts = append(alts, Seq(lit(1), lit(1)))
			} else {
				alts = append(alts, lit(i))
			}
		}
		gs = append(gs, &Grammar{Lex: []LexDef{{"t", "tok", AltP(alts...)}}})
		gs = append(gs, &Grammar{Lex: []LexDef{{"t", "tok", AltP(alts...)}, {"u", "tok", Seq(lit(1), lit(2))}}})
		// n alternatives inside a group followed by more
		gs = append(gs, &Grammar{Lex: []LexDef{{"t", "tok", Seq(AltP(alts...), lit(0))}}})
		// n terms in sequence, with an optional and a repeated part in the middle
		var terms []*Pat
		for i := 0; i < n; i++ {
			switch i {
			case 2:
				terms = append(terms, Opt(lit(i)))
			case n - 2:
				terms = append(terms, Rep(lit(i)))
			default:
				terms = append(terms, lit(i%3))
			}
		}
		gs = append(gs, &Grammar{Lex: []LexDef{{"t", "tok", Seq(terms...)}}})
		gs = append(gs, &Grammar{Lex: []LexDef{{"t", "tok", Seq(terms...)}, {"!w", "ign", Seq(lit(0), lit(1))}}})
	}
	return gs
}
