package gram

import (
	"fmt"
	"strings"
	"unicode"
	"unicode/utf8"
)

// Tok is one front-end token of a grammar text, as gocc's scanner classifies it.
type Tok struct {
	Kind string // tokId prodId regDefId ignoredTokId char_lit string_lit g_sdt_lit or the punctuation itself
	Text string
}

// Lexemes splits a WELL-FORMED grammar text (as printed by this package or written as a seed) into tokens.
// It is deliberately independent of gocc's scanner.
func Lexemes(text string) ([]Tok, error) {
	var out []Tok
	for i := 0; i < len(text); {
		c := text[i]
		switch {
		case c == ' ' || c == '\t' || c == '\n' || c == '\r':
			i++
		case strings.HasPrefix(text[i:], "//"):
			j := strings.IndexByte(text[i:], '\n')
			if j < 0 {
				j = len(text) - i
			}
			i += j
		case strings.HasPrefix(text[i:], "/*"):
			j := strings.Index(text[i+2:], "*/")
			if j < 0 {
				return nil, fmt.Errorf("unterminated comment")
			}
			i += j + 4
		case strings.HasPrefix(text[i:], "<<"):
			j := strings.Index(text[i:], ">>")
			if j < 0 {
				return nil, fmt.Errorf("unterminated action")
			}
			out = append(out, Tok{"g_sdt_lit", text[i : i+j+2]})
			i += j + 2
		case c == '\'':
			j := i + 1
			if j < len(text) && text[j] == '\\' {
				j += 2
				for j < len(text) && text[j] != '\'' {
					j++
				}
			} else {
				_, n := utf8.DecodeRuneInString(text[j:])
				j += n
			}
			if j >= len(text) || text[j] != '\'' {
				return nil, fmt.Errorf("bad character literal at %d", i)
			}
			out = append(out, Tok{"char_lit", text[i : j+1]})
			i = j + 1
		case c == '"':
			j := i + 1
			for j < len(text) && text[j] != '"' {
				if text[j] == '\\' {
					j++
				}
				j++
			}
			if j >= len(text) {
				return nil, fmt.Errorf("unterminated string")
			}
			out = append(out, Tok{"string_lit", text[i : j+1]})
			i = j + 1
		case c == '`':
			j := strings.IndexByte(text[i+1:], '`')
			if j < 0 {
				return nil, fmt.Errorf("unterminated raw string")
			}
			out = append(out, Tok{"string_lit", text[i : i+j+2]})
			i += j + 2
		case strings.ContainsRune(":;|.-[]{}()", rune(c)):
			out = append(out, Tok{string(c), string(c)})
			i++
		default:
			r, _ := utf8.DecodeRuneInString(text[i:])
			if !(r == '!' || r == '_' || unicode.IsLetter(r)) {
				return nil, fmt.Errorf("unexpected character %q at %d", r, i)
			}
			j := i
			for j < len(text) {
				r, n := utf8.DecodeRuneInString(text[j:])
				if !(r == '!' || r == '_' || unicode.IsLetter(r) || unicode.IsDigit(r)) {
					break
				}
				j += n
			}
			w := text[i:j]
			k := "tokId"
			switch {
			case r == '!':
				k = "ignoredTokId"
			case r == '_':
				k = "regDefId"
			case unicode.IsUpper(r):
				k = "prodId"
			}
			out = append(out, Tok{k, w})
			i = j
		}
	}
	return out, nil
}

// Join renders tokens with one filler per gap: fill(i) is the text put before token i (i = len(toks): after the last).
func Join(toks []Tok, fill func(i int) string) string {
	var b strings.Builder
	for i, t := range toks {
		b.WriteString(fill(i))
		b.WriteString(t.Text)
	}
	b.WriteString(fill(len(toks)))
	return b.String()
}

// Canonical renders tokens with single spaces and a newline after every ';' and after a file header.
func Canonical(toks []Tok) string {
	return Join(toks, func(i int) string {
		if i == 0 {
			return ""
		}
		if i == len(toks) {
			return "\n"
		}
		if toks[i-1].Kind == ";" {
			return "\n"
		}
		return " "
	})
}
