package gram

import (
	"fmt"
	"strconv"
)

// ReadGrammar reads a complete, well-formed gocc grammar text (lexical and syntax part) into the checker's AST with a
// reader of its own (tokenizer: Lexemes). Semantic actions and the file header are dropped: the AST is used for the
// table-level comparisons, which do not depend on them. It returns an error - and the caller skips the file - on
// anything the AST cannot express (an error symbol that is not the first symbol of its alternative, for instance).
func ReadGrammar(text string) (*Grammar, error) {
	toks, err := Lexemes(text)
	if err != nil {
		return nil, err
	}
	p := &gReader{toks: toks}
	g := &Grammar{}
	for p.i < len(toks) {
		t := toks[p.i]
		switch t.Kind {
		case "g_sdt_lit":
			p.i++ // file header
		case "tokId", "ignoredTokId", "regDefId":
			p.i++
			if !p.eat(":") {
				return nil, p.fail("':' after " + t.Text)
			}
			pat, err := p.pattern()
			if err != nil {
				return nil, err
			}
			if !p.eat(";") {
				return nil, p.fail("';' after the pattern of " + t.Text)
			}
			kind := map[string]string{"tokId": "tok", "ignoredTokId": "ign", "regDefId": "reg"}[t.Kind]
			g.Lex = append(g.Lex, LexDef{Name: t.Text, Kind: kind, P: pat})
		case "prodId":
			p.i++
			if !p.eat(":") {
				return nil, p.fail("':' after " + t.Text)
			}
			for {
				a := Alt{Head: t.Text}
				n := 0
				for p.i < len(toks) && toks[p.i].Kind != "|" && toks[p.i].Kind != ";" {
					s := toks[p.i]
					p.i++
					switch {
					case s.Kind == "g_sdt_lit":
						if p.i < len(toks) && toks[p.i].Kind != "|" && toks[p.i].Kind != ";" {
							return nil, p.fail("an action at the end of its alternative")
						}
						continue
					case s.Kind == "tokId" && s.Text == "empty":
					case s.Kind == "tokId" && s.Text == "error":
						if n != 0 {
							return nil, p.fail("error as the first symbol of its alternative")
						}
						a.Err = true
					case s.Kind == "string_lit":
						a.Body = append(a.Body, Sym{Name: s.Text[1 : len(s.Text)-1], Str: true})
					case s.Kind == "tokId" || s.Kind == "prodId":
						a.Body = append(a.Body, Sym{Name: s.Text})
					default:
						return nil, p.fail("a syntax symbol, got " + s.Text)
					}
					n++
				}
				g.Alts = append(g.Alts, a)
				if p.eat("|") {
					continue
				}
				if !p.eat(";") {
					return nil, p.fail("';'")
				}
				break
			}
		default:
			return nil, p.fail("a production, got " + t.Text)
		}
	}
	return g, nil
}

type gReader struct {
	toks []Tok
	i    int
}

func (p *gReader) fail(want string) error { return fmt.Errorf("token %d: expected %s", p.i, want) }

func (p *gReader) eat(kind string) bool {
	if p.i < len(p.toks) && p.toks[p.i].Kind == kind {
		p.i++
		return true
	}
	return false
}

func (p *gReader) pattern() (*Pat, error) {
	var alts []*Pat
	for {
		var terms []*Pat
		for p.i < len(p.toks) {
			t := p.toks[p.i]
			var x *Pat
			switch t.Kind {
			case ".":
				p.i++
				x = Dot()
			case "char_lit":
				p.i++
				lo, err := charLitValue(t.Text)
				if err != nil {
					return nil, err
				}
				x = Lit(lo)
				if p.i+1 < len(p.toks) && p.toks[p.i].Kind == "-" && p.toks[p.i+1].Kind == "char_lit" {
					hi, err := charLitValue(p.toks[p.i+1].Text)
					if err != nil {
						return nil, err
					}
					p.i += 2
					x = Rng(lo, hi)
				}
			case "regDefId":
				p.i++
				x = Ref(t.Text)
			case "[", "{", "(":
				p.i++
				sub, err := p.pattern()
				if err != nil {
					return nil, err
				}
				if !p.eat(map[string]string{"[": "]", "{": "}", "(": ")"}[t.Kind]) {
					return nil, p.fail("closing bracket of " + t.Kind)
				}
				x = map[string]func(*Pat) *Pat{"[": Opt, "{": Rep, "(": Grp}[t.Kind](sub)
			}
			if x == nil {
				break
			}
			terms = append(terms, x)
		}
		if len(terms) == 0 {
			return nil, p.fail("a lexical term")
		}
		if len(terms) == 1 {
			alts = append(alts, terms[0])
		} else {
			alts = append(alts, Seq(terms...))
		}
		if !p.eat("|") {
			break
		}
	}
	if len(alts) == 1 {
		return alts[0], nil
	}
	return AltP(alts...), nil
}

func charLitValue(lit string) (rune, error) {
	if len(lit) < 3 {
		return 0, fmt.Errorf("bad character literal %s", lit)
	}
	v, _, tail, err := strconv.UnquoteChar(lit[1:], '\'')
	if err != nil || tail != "'" {
		return 0, fmt.Errorf("bad character literal %s", lit)
	}
	return v, nil
}
