package gram

import (
	"fmt"
	"strconv"
	"strings"
)

// HostFam: seeds as texts, respellings, mutations, markdown splits.

// Seed is a hand-written well-formed grammar text that compiles in any module (headers import only std packages).
type Seed struct {
	Name string
	Text string
}

func Seeds() []Seed {
	return []Seed{
		{"calc", `_digit : '0'-'9' ;
int64 : '1'-'9' { _digit } ;
!whitespace : ' ' | '\t' | '\n' | '\r' ;
<< import "strconv"
type lit interface{ IDValue() string } >>
Calc : Expr ;
Expr : Expr "+" Term << $0.(int64) + $2.(int64), nil >> | Term ;
Term : Term "*" Factor << $0.(int64) * $2.(int64), nil >> | Factor ;
Factor : "(" Expr ")" << $1, nil >> | int64 << strconv.ParseInt($0.(lit).IDValue(), 10, 64) >> ;
`},
		{"list", `id : ( 'a'-'z' | '_' ) { 'a'-'z' | '0'-'9' } ;
str : '"' { . } '"' ;
!ws : ' ' | '\n' ;
!comment : '/' '/' { . } '\n' ;
List : empty | List Item ;
Item : id ` + "`;`" + ` | error ";" | "[" List "]" | str ;
`},
		{"lexonly", `a : 'a' [ 'b' ] ;
!sp : ' ' ;
b : '\x62' '\u0063' | '\U00000064' '\144' ;
c : 'é' 'a' | '€' 'é'-'ü' | '😀' 'b' ;
`},
		{"synonly", `S : a S | b ;
`},
		{"regdefs", `_l : 'a'-'c' ;
_d : '0' | '1' ;
name : _l { _l | _d } ;
num : _d { _d } ;
!w : ' ' ;
S : name "=" num | S "," S ;
`},
		{"ctx", `x : 'x' ;
y : 'y' ;
<< type pair struct{ a, b interface{} } >>
P : x y << pair{$0, $1}, nil >> | x P y << pair{$1, $Context}, nil >> ;
`},
	}
}

// HostileSeeds are well-formed grammars with hostile spellings: one hostile item each.
func HostileSeeds() []Seed {
	var out []Seed
	add := func(name, text string) { out = append(out, Seed{name, text}) }
	// token and production names
	for _, n := range []string{"type", "func", "string", "int", "nil", "error1", "empty_", "t0k_1", "tête", "a1", "len"} {
		add("tokname-"+n, fmt.Sprintf("%s : 'a' ;\nS : %s %s ;\n", n, n, n))
	}
	for _, n := range []string{"Type", "Func", "Error", "Empty", "S_1", "Édith", "Parser", "Token", "Attrib", "X"} {
		add("prodname-"+n, fmt.Sprintf("a : 'a' ;\n%s : a | %s a ;\n", n, n))
	}
	// string literals over ASCII punctuation and awkward sequences
	for _, s := range []string{"!", "#", "$", "%", "&", "'", "(", ")", "*", "+", ",", "-", ".", "/", ":", ";", "<", "=", ">", "?", "@", "[", "]", "^", "_", "{", "|", "}", "~",
		"{{", "}}", "*/", "/*", "//", "%s", "%d", "<<", ">>", "$0", "a b", "\\", "\\n", "\\d", "`", "␚", "é", "INVALID",
		"%%", "%token", "100%", "%v%", "%[1]d", "%!", "{{.}}", "{{end}}", "$", "$$", "$T0", "$Context", "\\\\", "\\\"", "'", "''", "/*x*/", "// x", "a\tb", "  "} {
		q := `"` + s + `"`
		if strings.ContainsAny(s, `"\`) {
			q = "`" + s + "`"
		}
		if strings.Contains(s, "`") {
			q = `"` + s + `"`
		}
		add("strlit-"+strconv.Quote(s), fmt.Sprintf("a : 'a' ;\nS : a %s | %s S ;\n", q, q))
	}
	add("strlit-dquote", "a : 'a' ;\nS : a `\"` ;\n")
	add("strlit-nul", "a : 'a' ;\nS : a \"\x00\" | \"\x00\" S ;\n")
	add("strlit-cr", "a : 'a' ;\nS : a `x\ry` ;\n")
	add("strlit-bom", "a : 'a' ;\nS : a \"\ufeff\" ;\n")
	add("strlit-tab-vt", "a : 'a' ;\nS : a \"\t\v\" ;\n")
	add("strlit-rawnl", "a : 'a' ;\nS : a `x\ny` ;\n")
	// two terminals, one holding a control character and one spelled like the escaped form of the first (whatever
	// escapes names for comments or tables must not make them the same name)
	add("strlit-escaped-twin-lf", "a : 'a' ;\nS : a `;\n` | a a \";\\n\" ;\n")
	add("strlit-escaped-twin-nul", "a : 'a' ;\nS : a \"x\x00\" | a a `x\\x00` ;\n")
	add("strlit-escaped-twin-cr", "a : 'a' ;\nS : a `x\ry` | a a `x\\ry` ;\n")
	// bytes that are not UTF-8 inside a string literal terminal (a lone lead byte, a lone continuation byte, a
	// truncated sequence, an encoded surrogate, 0xFF)
	for i, b := range []string{"\xff", "x\xc3", "\x80y", "\xe2\x82", "\xed\xa0\x80", "\xf8\x88\x80\x80\x80"} {
		add(fmt.Sprintf("strlit-illformed-%d", i), "a : 'a' ;\nS : a \""+b+"\" | \""+b+"\" S ;\n")
		add(fmt.Sprintf("strlit-illformed-raw-%d", i), "a : 'a' ;\nS : a `"+b+"` ;\n")
	}
	// long terminals of multi-byte characters (a rendering that abbreviates at a byte offset - 16, 32, 40, 64 - cuts a
	// character in two unless it counts characters)
	for i, l := range []string{strings.Repeat("語", 15), "a" + strings.Repeat("語", 15), "ab" + strings.Repeat("語", 30), strings.Repeat("é", 40), "x" + strings.Repeat("é", 40),
		"a" + strings.Repeat("𝄞", 20), "abc" + strings.Repeat("𝄞", 20), strings.Repeat("ab", 40)} {
		add(fmt.Sprintf("strlit-long-%d", i), "a : 'a' ;\nS : a \""+l+"\" | \""+l+"\" S ;\n")
	}
	add("tokname-long", "a : 'a' ;\n"+strings.Repeat("é", 30)+"x : 'b' ;\nS : a "+strings.Repeat("é", 30)+"x ;\n")
	// character literals
	for _, c := range []string{`'\''`, `'\\'`, `'"'`, `'\n'`, `'\x00'`, `'\u2318'`, `'\U0010ffff'`, "'`'", `'%'`, `'{'`, `'}'`, `'\t'`, `'\a'`, `'\377'`, `'é'`, `'\ufffd'`} {
		add("charlit-"+c, fmt.Sprintf("t : %s 'a' ;\nu : 'b' %s-%s ;\n", c, c, c))
	}
	// action expressions
	for _, a := range []string{
		"`raw`, nil", `"a>b", nil`, `"$1", nil`, `func() (interface{}, error) { return $0, nil }()`, "$0, nil // trailing comment\n", `[]interface{}{$0, $1}, nil`,
		`map[string]interface{}{"k": $0}, nil`, "X[0], nil", "// the node\n\t$0, nil", "/* the\n node */ $0, nil", "\n\n\t$0,\n\tnil\n", `"%s{{.}}", nil`, "struct{ a interface{} }{\n\t$0,\n}, nil", `'>', nil`, `1 >> 0, nil`,
	} {
		add("action-"+strconv.Quote(a), fmt.Sprintf("a : 'a' ;\nb : 'b' ;\nS : a b << %s >> ;\n", a))
	}
	// attribute references with two digits
	add("action-$10", "a : 'a' ;\nS : a a a a a a a a a a a a << []interface{}{$0, $9, $10, $11, $Context}, nil >> | a a << $1, nil >> ;\n")
	// file header with imports and declarations
	add("header-import", "a : 'a' ;\n<< import (\n\t\"fmt\"\n\t\"strings\"\n)\nvar _ = fmt.Sprint\nvar _ = strings.ToUpper >>\nS : a << fmt.Sprint($0), nil >> ;\n")
	return out
}

// Respelling is one layout/escape/quoting variant of a token list.
type Respelling struct {
	Kind string
	Text string
}

var Fillers = []string{" ", "\t", "\n", "\r\n", "  ", "/**/", "/* c */", "/* * / */", "// c\n", "//\n",
	"/***/", "/****/", "/* x **/", "/** x\n * y\n **/", "/*/*/", "/* // */", "// */\n", "//* x\n", "/* ' \" ` << */", "\n\n\t "}

// charSpellings returns alternative spellings of a character literal denoting the same code point.
func charSpellings(lit string) []string {
	cp, _, tail, err := strconv.UnquoteChar(lit[1:], '\'')
	if err != nil || tail != "'" {
		return nil
	}
	var out []string
	add := func(s string) {
		if s != lit {
			out = append(out, s)
		}
	}
	if cp > 0x20 && cp < 0x7f && cp != '\'' && cp != '\\' {
		add("'" + string(cp) + "'")
	}
	if cp >= 0x80 {
		add("'" + string(cp) + "'")
	}
	if cp <= 0xFF {
		add(fmt.Sprintf(`'\x%02x'`, cp))
		add(fmt.Sprintf(`'\x%02X'`, cp))
		add(fmt.Sprintf(`'\%03o'`, cp))
	}
	if cp <= 0xFFFF {
		add(fmt.Sprintf(`'\u%04x'`, cp))
		add(fmt.Sprintf(`'\u%04X'`, cp))
	}
	add(fmt.Sprintf(`'\U%08x'`, cp))
	for _, n := range []struct {
		c rune
		s string
	}{{7, `'\a'`}, {8, `'\b'`}, {12, `'\f'`}, {10, `'\n'`}, {13, `'\r'`}, {9, `'\t'`}, {11, `'\v'`}, {'\\', `'\\'`}, {'\'', `'\''`}} {
		if n.c == cp {
			add(n.s)
		}
	}
	return out
}

// Respellings enumerates all deviation-1 respellings of toks (each gap x each filler, each character literal x each
// alternative spelling, each string literal x the other quoting style). Canonical layout is the default.
func Respellings(toks []Tok) []Respelling {
	var out []Respelling
	def := func(i int) string {
		switch {
		case i == 0:
			return ""
		case i == len(toks) || toks[i-1].Kind == ";":
			return "\n"
		}
		return " "
	}
	identLike := func(k string) bool { return k == "tokId" || k == "prodId" || k == "regDefId" || k == "ignoredTokId" }
	for g := 0; g <= len(toks); g++ {
		fillers := Fillers
		// no filler at all where the two neighbours cannot run together (not two identifier-like tokens)
		if g > 0 && g < len(toks) && !(identLike(toks[g-1].Kind) && identLike(toks[g].Kind)) {
			fillers = append([]string{""}, Fillers...)
		}
		if g == len(toks) {
			// the end of the file: nothing at all, a comment that the end of the file terminates, a lone carriage return
			fillers = append(append([]string{}, fillers...), "", "// c", "//", "\n// c", "\n//", " /* c */", "\n/* c */", "\r", "\n\r", "\n \t")
		}
		for _, f := range fillers {
			if f == def(g) {
				continue
			}
			out = append(out, Respelling{fmt.Sprintf("gap%d:%q", g, f), Join(toks, func(i int) string {
				if i == g {
					return f
				}
				return def(i)
			})})
		}
	}
	for k, t := range toks {
		var alts []string
		switch t.Kind {
		case "char_lit":
			alts = charSpellings(t.Text)
		case "string_lit":
			body := t.Text[1 : len(t.Text)-1]
			if !strings.ContainsAny(body, "\"\\`\n") {
				if t.Text[0] == '"' {
					alts = []string{"`" + body + "`"}
				} else {
					alts = []string{`"` + body + `"`}
				}
			} else if t.Text[0] == '"' && !strings.ContainsAny(body, "`\n") {
				// gocc takes the text between the quotes as it stands (no unescaping), so an interpreted literal with
				// escapes - "\"" , "a\\b" - names the same terminal as the raw literal with the same text
				alts = []string{"`" + body + "`"}
			}
		}
		for _, a := range alts {
			nt := append([]Tok(nil), toks...)
			nt[k].Text = a
			out = append(out, Respelling{fmt.Sprintf("tok%d:%s->%s", k, t.Text, a), Join(nt, def)})
		}
	}
	return out
}

// Respellings2 enumerates deviation-2 respellings (pairs of gap fillers), at most limit (deterministic stride).
func Respellings2(toks []Tok, limit int) []Respelling {
	def := func(i int) string {
		switch {
		case i == 0:
			return ""
		case i == len(toks) || toks[i-1].Kind == ";":
			return "\n"
		}
		return " "
	}
	total := (len(toks) + 1) * len(toks) / 2 * len(Fillers) * len(Fillers)
	stride := 1
	if total > limit {
		stride = total/limit + 1
	}
	var out []Respelling
	n := 0
	for g1 := 0; g1 <= len(toks); g1++ {
		for g2 := g1 + 1; g2 <= len(toks); g2++ {
			for _, f1 := range Fillers {
				for _, f2 := range Fillers {
					n++
					if n%stride != 0 || f1 == def(g1) || f2 == def(g2) {
						continue
					}
					out = append(out, Respelling{fmt.Sprintf("gap%d:%q+gap%d:%q", g1, f1, g2, f2), Join(toks, func(i int) string {
						switch i {
						case g1:
							return f1
						case g2:
							return f2
						}
						return def(i)
					})})
				}
			}
		}
	}
	return out
}

// StressSeeds: long and deeply nested shapes (termination in reasonable time is part of "always terminates"):
// runs of nullable multi-alternative groups, deep nesting, wide alternations, long sequences, long bodies.
func StressSeeds() []Seed {
	var out []Seed
	rep := func(s string, n int) string { return strings.Repeat(s, n) }
	out = append(out,
		Seed{"nullable-groups-x20", "cmd : '@' " + rep("[ 'a' | 'b' 'c' ] ", 20) + "'!' ;\n"},
		Seed{"nullable-regdef-x20", "_sw : [ 'a'-'z' ] | [ 'A'-'Z' [ 'A'-'Z' ] ] | { '-' } ;\ncmd : '@' " + rep("_sw ", 20) + "'!' ;\n"},
		Seed{"nullable-alt-groups-x16", "t : 'x' " + rep("( [ 'a' ] | { 'b' } | [ 'c' 'd' ] ) ", 16) + ";\n"},
		Seed{"nest-depth-14", "t : " + rep("[ { ( ", 5) + "'a'" + rep(" ) } ]", 5) + " 'b' ;\n"},
		Seed{"alternation-x60", "t : " + func() string {
			var a []string
			for i := 0; i < 60; i++ {
				a = append(a, fmt.Sprintf("'\\u%04x' 'z'", 0x100+i))
			}
			return strings.Join(a, " | ")
		}() + " ;\n"},
		Seed{"sequence-x40", "t : " + rep("'a' [ 'b' ] ", 40) + ";\n"},
		Seed{"body-x30", "a : 'a' ;\nS : " + rep("a ", 30) + "| a S ;\n"},
		Seed{"alternatives-x40", "a : 'a' ;\nb : 'b' ;\nS : " + func() string {
			var a []string
			for i := 1; i <= 40; i++ {
				a = append(a, rep("a ", i%7+1)+"b")
			}
			return strings.Join(a, " | ")
		}() + " ;\n"},
		Seed{"nullable-chain-x12", func() string {
			s := "a : 'a' ;\nS : N1 a ;\n"
			for i := 1; i <= 12; i++ {
				if i < 12 {
					s += fmt.Sprintf("N%d : N%d | empty ;\n", i, i+1)
				} else {
					s += fmt.Sprintf("N%d : empty ;\n", i)
				}
			}
			return s
		}()},
	)
	return out
}
