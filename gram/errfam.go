package gram

// ErrFam: grammars with alternatives that begin with the error symbol.

// ErrSeeds are hand-built: error alone, error t, error A, in the start production, in a list element, in a
// nullable context, at two depths, with error in a look-ahead set, never reachable.
func ErrSeeds() []*Grammar {
	specs := []string{
		"S: Stmts ; Stmts: Stmt | Stmts Stmt ; Stmt: error semi | a semi",
		"S: A b ; A: a | error",
		"S: error | a b",
		"S: a A b ; A: error | a",
		"S: L ; L: empty | L E ; E: a semi | error semi | b L b",
		"S: error a | b",
		"S: error A | b ; A: a",
		"S: a S | error",
		"S: A | S A ; A: a b | error b",
		"S: A B ; A: a | error ; B: b | error",
		"S: lp S rp | a | error",
		"S: lp L rp ; L: E | L semi E ; E: a | error",
		"S: O a ; O: empty | b | error",
		"S: a ; A: error b",
		"S: A semi | S A semi ; A: a | b A | error",
		"S: a A ; A: b B ; B: error a | a",
		"S: E ; E: E plus a | a | error plus a",
		"S: a b | a error",
		"S: A a ; A: error | b",
		"S: error semi S | a",
		// the error symbol is a look-ahead of a completed production (an error alternative may follow) while no state
		// on the stack can shift it
		"S: A B ; A: a ; B: b | error c",
		"S: S A | a ; A: error b | b",
		"S: A B c ; A: a | a a ; B: error | b",
		"S: A B ; A: empty ; B: b | error c",
		// the error alternative lives in a second, non-adjacent rule for the same head (a section of recovery rules)
		"S: Stmts ; Stmts: Stmt | Stmts Stmt ; Stmt: a semi | X semi ; X: b ; Stmt: error semi",
		"S: a A b ; A: a ; B: b ; A: error ; S: B",
		"S: A | S A ; A: a b ; S: error b",
		// a completed production with error in its look-ahead next to an item with the dot in front of error (an
		// error-column conflict that -a resolves in favour of the shift)
		"S: L B ; L: a | a L | error ; B: b | error",
		"S: L T ; L: s | s L ; T: error x | y",
	}
	var out []*Grammar
	for _, s := range specs {
		out = append(out, Mk(s))
	}
	return out
}

// ErrFromS1 replaces one alternative of each small S1 grammar by each error form.
func ErrFromS1(maxAlts int) []*Grammar {
	forms := [][]Sym{nil, {{Name: "a"}}, {{Name: "b"}}, {{Name: "A"}}, {{Name: "S"}}}
	seen := map[string]bool{}
	var out []*Grammar
	for _, g := range S1(maxAlts, false) {
		for i := range g.Alts {
			for _, f := range forms {
				ng := &Grammar{Lex: g.Lex}
				ok := true
				for j, a := range g.Alts {
					if j == i {
						ng.Alts = append(ng.Alts, Alt{Head: a.Head, Err: true, Body: f})
					} else {
						ng.Alts = append(ng.Alts, a)
					}
				}
				defined := map[string]bool{}
				for _, a := range ng.Alts {
					defined[a.Head] = true
				}
				for _, a := range ng.Alts {
					for _, s := range a.Body {
						if IsNT(s.Name) && !defined[s.Name] {
							ok = false
						}
					}
				}
				if !ok {
					continue
				}
				// duplicate alternatives make no sense
				t := ng.Text()
				if seen[t] {
					continue
				}
				seen[t] = true
				out = append(out, ng)
			}
		}
	}
	return out
}
