// Package gram is the checker's own grammar AST. Grammars originate here as Go values; the printer renders
// them to gocc BNF for the generator, the reference models consume the AST directly.
package gram

import (
	"crypto/sha256"
	"encoding/hex"
	"fmt"
	"strings"
)

// Pat is a lexical pattern. K is one of lit, rng, dot, ref, seq, alt, opt, rep, grp.
type Pat struct {
	K    string `json:"k"`
	R    rune   `json:"r,omitempty"`  // lit: the rune; rng: low bound
	Hi   rune   `json:"hi,omitempty"` // rng: high bound
	Name string `json:"name,omitempty"`
	Sub  []*Pat `json:"sub,omitempty"`
}

func Lit(r rune) *Pat      { return &Pat{K: "lit", R: r} }
func Rng(lo, hi rune) *Pat { return &Pat{K: "rng", R: lo, Hi: hi} }
func Dot() *Pat            { return &Pat{K: "dot"} }
func Ref(n string) *Pat    { return &Pat{K: "ref", Name: n} }
func Seq(p ...*Pat) *Pat   { return &Pat{K: "seq", Sub: p} }
func AltP(p ...*Pat) *Pat  { return &Pat{K: "alt", Sub: p} }
func Opt(p *Pat) *Pat      { return &Pat{K: "opt", Sub: []*Pat{p}} }
func Rep(p *Pat) *Pat      { return &Pat{K: "rep", Sub: []*Pat{p}} }
func Grp(p *Pat) *Pat      { return &Pat{K: "grp", Sub: []*Pat{p}} }
func Str(s string) *Pat {
	var ps []*Pat
	for _, r := range s {
		ps = append(ps, Lit(r))
	}
	if len(ps) == 1 {
		return ps[0]
	}
	return Seq(ps...)
}

// LexDef is one lexical production. Kind: tok, ign (name starts with '!'), reg (name starts with '_').
type LexDef struct {
	Name string `json:"name"`
	Kind string `json:"kind"`
	P    *Pat   `json:"p"`
}

// Sym is a symbol of a syntax body: a production name (upper-case initial), a token name (lower-case
// initial) or a string literal (Str true; Name holds the content).
type Sym struct {
	Name string `json:"name"`
	Str  bool   `json:"str,omitempty"`
}

// Alt is one alternative. Empty body = the 'empty' keyword. Err = begins with the error symbol.
type Alt struct {
	Head   string `json:"head"`
	Body   []Sym  `json:"body"`
	Err    bool   `json:"err,omitempty"`
	Action string `json:"action,omitempty"` // text between << and >>
}

type Grammar struct {
	// Spelled, when set, is the text handed to the generator instead of the canonical rendering (the same grammar with
	// its character literals spelled differently); the reference models still read the AST
	Spelled string   `json:"spelled,omitempty"`
	Lex     []LexDef `json:"lex,omitempty"`
	Header  string   `json:"header,omitempty"` // text between << and >> before the first production
	Alts    []Alt    `json:"alts,omitempty"`   // alternatives in declaration order; equal heads are grouped when printed
}

func RuneLit(r rune) string {
	if r > 0x20 && r < 0x7f && r != '\'' && r != '\\' {
		return "'" + string(r) + "'"
	}
	if r < 0x10000 {
		return fmt.Sprintf(`'\u%04x'`, r)
	}
	return fmt.Sprintf(`'\U%08x'`, r)
}

func (p *Pat) String() string { return p.show(true) }

func (p *Pat) show(top bool) string {
	switch p.K {
	case "lit":
		return RuneLit(p.R)
	case "rng":
		return RuneLit(p.R) + "-" + RuneLit(p.Hi)
	case "dot":
		return "."
	case "ref":
		return p.Name
	case "seq":
		var s []string
		for _, x := range p.Sub {
			s = append(s, x.show(false))
		}
		return strings.Join(s, " ")
	case "alt":
		var s []string
		for _, x := range p.Sub {
			s = append(s, x.show(true))
		}
		r := strings.Join(s, " | ")
		if top {
			return r
		}
		return "( " + r + " )"
	case "opt":
		return "[ " + p.Sub[0].show(true) + " ]"
	case "rep":
		return "{ " + p.Sub[0].show(true) + " }"
	case "grp":
		return "( " + p.Sub[0].show(true) + " )"
	}
	panic("bad pattern kind " + p.K)
}

// StrLit renders a string-literal terminal. gocc takes the raw text between the quotes as the terminal (no
// unescaping), so content with '"', '\' or a line break is written as a raw (back-quoted) literal; content with a
// back quote must be written interpreted.
func StrLit(s string) string {
	if strings.ContainsAny(s, "\"\\\n\r") && !strings.Contains(s, "`") {
		return "`" + s + "`"
	}
	return `"` + s + `"`
}

func (s Sym) String() string {
	if s.Str {
		return StrLit(s.Name)
	}
	return s.Name
}

// Text renders the grammar as gocc BNF (canonical spelling: one space between tokens, one production per line).
func (g *Grammar) Text() string {
	if g.Spelled != "" {
		return g.Spelled
	}
	var b strings.Builder
	for _, d := range g.Lex {
		fmt.Fprintf(&b, "%s : %s ;\n", d.Name, d.P.String())
	}
	if g.Header != "" {
		fmt.Fprintf(&b, "<< %s >>\n", g.Header)
	}
	for i := 0; i < len(g.Alts); {
		j := i
		fmt.Fprintf(&b, "%s :", g.Alts[i].Head)
		for ; j < len(g.Alts) && g.Alts[j].Head == g.Alts[i].Head; j++ {
			if j > i {
				b.WriteString(" |")
			}
			a := g.Alts[j]
			if a.Err {
				b.WriteString(" error")
			}
			if len(a.Body) == 0 && !a.Err {
				b.WriteString(" empty")
			}
			for _, s := range a.Body {
				b.WriteString(" " + s.String())
			}
			if a.Action != "" {
				fmt.Fprintf(&b, " << %s >>", a.Action)
			}
		}
		b.WriteString(" ;\n")
		i = j
	}
	return b.String()
}

// ID is a short content hash of the grammar text.
func (g *Grammar) ID() string {
	h := sha256.Sum256([]byte(g.Text()))
	return hex.EncodeToString(h[:8])
}

// Terminals returns the terminal names of the syntax part in order of first use. A string literal is named by
// its content (gocc uses the raw text between the quotes as the symbol name).
func (g *Grammar) Terminals() []string {
	var out []string
	seen := map[string]bool{}
	for _, a := range g.Alts {
		for _, s := range a.Body {
			n := s.Name
			if !s.Str && IsNT(n) {
				continue
			}
			if !seen[n] {
				seen[n] = true
				out = append(out, n)
			}
		}
	}
	return out
}

// NonTerminals returns production heads in declaration order.
func (g *Grammar) NonTerminals() []string {
	var out []string
	seen := map[string]bool{}
	for _, a := range g.Alts {
		if !seen[a.Head] {
			seen[a.Head] = true
			out = append(out, a.Head)
		}
	}
	return out
}

func IsNT(name string) bool { return name != "" && name[0] >= 'A' && name[0] <= 'Z' }

// HasError reports whether any alternative starts with the error symbol.
func (g *Grammar) HasError() bool {
	for _, a := range g.Alts {
		if a.Err {
			return true
		}
	}
	return false
}
