package gram

// InlineRegDefs returns a copy of the grammar in which every reference to a regular definition is replaced by
// a parenthesised copy of its body (macro expansion); the definitions themselves are dropped.
func InlineRegDefs(g *Grammar) *Grammar {
	regs := map[string]*Pat{}
	for _, d := range g.Lex {
		if d.Kind == "reg" {
			regs[d.Name] = d.P
		}
	}
	var inl func(p *Pat, depth int) *Pat
	inl = func(p *Pat, depth int) *Pat {
		if depth > 40 {
			panic("recursive regular definition")
		}
		if p.K == "ref" {
			return Grp(inl(regs[p.Name], depth+1))
		}
		q := &Pat{K: p.K, R: p.R, Hi: p.Hi, Name: p.Name}
		for _, s := range p.Sub {
			q.Sub = append(q.Sub, inl(s, depth))
		}
		return q
	}
	out := &Grammar{Header: g.Header, Alts: g.Alts}
	for _, d := range g.Lex {
		if d.Kind != "reg" {
			out.Lex = append(out.Lex, LexDef{d.Name, d.Kind, inl(d.P, 0)})
		}
	}
	return out
}

// HasRegDefs reports whether the grammar has regular definitions.
func (g *Grammar) HasRegDefs() bool {
	for _, d := range g.Lex {
		if d.Kind == "reg" {
			return true
		}
	}
	return false
}
