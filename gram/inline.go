package gram

// InlineRegDefs returns a copy of the grammar in which every reference to a regular definition is replaced by
// a parenthesised copy of its body (macro expansion); the definitions themselves are dropped.
func InlineRegDefs(g *Grammar) *Grammar {
	regs := map[string]*Pat{}
	for _, d := range g.Lex {
		if d.Kind == "reg" {
			regs[d.Name] = d.P
		}
	}
	var inl func(p *Pat, depth int) *Pat
	inl = func(p *Pat, depth int) *Pat {
		if depth > 40 {
			panic("recursive regular definition")
		}
		if p.K == "ref" {
			return Grp(inl(regs[p.Name], depth+1))
		}
		q := &Pat{K: p.K, R: p.R, Hi: p.Hi, Name: p.Name}
		for _, s := range p.Sub {
			q.Sub = append(q.Sub, inl(s, depth))
		}
		return q
	}
	out := &Grammar{Header: g.Header, Alts: g.Alts}
	for _, d := range g.Lex {
		if d.Kind != "reg" {
			out.Lex = append(out.Lex, LexDef{d.Name, d.Kind, inl(d.P, 0)})
		}
	}
	return out
}

// HasRegDefs reports whether the grammar has regular definitions.
func (g *Grammar) HasRegDefs() bool {
	for _, d := range g.Lex {
		if d.Kind == "reg" {
			return true
		}
	}
	return false
}

// SharingSensitive reports whether the grammar has a regular definition whose lexemes are not all exactly one
// character long (multi-character or nullable). Only such definitions can expose gocc's sharing of one item set per
// definition between call sites; single-character definitions (_digit : '0'-'9') behave like character classes.
func (g *Grammar) SharingSensitive() bool {
	regs := map[string]*Pat{}
	for _, d := range g.Lex {
		if d.Kind == "reg" {
			regs[d.Name] = d.P
		}
	}
	// lens returns (min, max) lexeme length, max -1 = unbounded
	var lens func(p *Pat, depth int) (int, int)
	lens = func(p *Pat, depth int) (int, int) {
		if depth > 40 {
			return 0, -1
		}
		switch p.K {
		case "lit", "rng", "dot":
			return 1, 1
		case "ref":
			if r, ok := regs[p.Name]; ok {
				return lens(r, depth+1)
			}
			return 0, -1
		case "grp":
			return lens(p.Sub[0], depth)
		case "opt":
			_, hi := lens(p.Sub[0], depth)
			return 0, hi
		case "rep":
			return 0, -1
		case "alt":
			lo, hi := 1<<30, 0
			for _, x := range p.Sub {
				l, h := lens(x, depth)
				if l < lo {
					lo = l
				}
				if h < 0 || hi < 0 {
					hi = -1
				} else if h > hi {
					hi = h
				}
			}
			return lo, hi
		case "seq":
			lo, hi := 0, 0
			for _, x := range p.Sub {
				l, h := lens(x, depth)
				lo += l
				if h < 0 || hi < 0 {
					hi = -1
				} else {
					hi += h
				}
			}
			return lo, hi
		}
		return 0, -1
	}
	for _, r := range regs {
		if lo, hi := lens(r, 0); lo != 1 || hi != 1 {
			return true
		}
	}
	return false
}
