package gram

import (
	"fmt"
	"strings"
)

// ReadSpec reads the syntax part of a gocc BNF file such as spec/gocc2.ebnf with a small reader of its own
// (comments, << >> actions, string literals, identifiers, ':' '|' ';'). String literals - including "error" and
// "empty" - are ordinary terminals named by their content.
func ReadSpec(text string) (*Grammar, error) {
	var toks []string
	for i := 0; i < len(text); {
		c := text[i]
		switch {
		case c == ' ' || c == '\t' || c == '\n' || c == '\r':
			i++
		case strings.HasPrefix(text[i:], "//"):
			j := strings.IndexByte(text[i:], '\n')
			if j < 0 {
				j = len(text) - i
			}
			i += j
		case strings.HasPrefix(text[i:], "/*"):
			j := strings.Index(text[i+2:], "*/")
			if j < 0 {
				return nil, fmt.Errorf("unterminated comment")
			}
			i += j + 4
		case strings.HasPrefix(text[i:], "<<"):
			j := strings.Index(text[i:], ">>")
			if j < 0 {
				return nil, fmt.Errorf("unterminated action")
			}
			toks = append(toks, "<<")
			i += j + 2
		case c == '"' || c == '`':
			j := strings.IndexByte(text[i+1:], c)
			if j < 0 {
				return nil, fmt.Errorf("unterminated string")
			}
			toks = append(toks, "\x00"+text[i+1:i+1+j])
			i += j + 2
		case c == ':' || c == '|' || c == ';':
			toks = append(toks, string(c))
			i++
		default:
			j := i
			for j < len(text) && (text[j] == '_' || text[j] >= '0' && text[j] <= '9' || text[j] >= 'a' && text[j] <= 'z' || text[j] >= 'A' && text[j] <= 'Z') {
				j++
			}
			if j == i {
				return nil, fmt.Errorf("unexpected character %q at offset %d", c, i)
			}
			toks = append(toks, text[i:j])
			i = j
		}
	}
	g := &Grammar{}
	i := 0
	if i < len(toks) && toks[i] == "<<" {
		i++ // file header
	}
	for i < len(toks) {
		head := toks[i]
		if !IsNT(head) || i+1 >= len(toks) || toks[i+1] != ":" {
			return nil, fmt.Errorf("expected production head, got %q", head)
		}
		i += 2
		cur := Alt{Head: head}
		for ; i < len(toks); i++ {
			t := toks[i]
			if t == "|" || t == ";" {
				g.Alts = append(g.Alts, cur)
				cur = Alt{Head: head}
				if t == ";" {
					i++
					break
				}
				continue
			}
			switch {
			case t == "<<":
				cur.Action = "x"
			case t[0] == 0:
				cur.Body = append(cur.Body, Sym{Name: t[1:], Str: true})
			default:
				cur.Body = append(cur.Body, Sym{Name: t})
			}
		}
	}
	return g, nil
}
