package gram

import (
	"fmt"
	"sort"
	"strings"
)

// tokDefs gives every named terminal a one-letter lexical definition (a : 'a' ;) so that generated output has a lexer.
func tokDefs(terms []string) []LexDef {
	var out []LexDef
	for _, t := range terms {
		out = append(out, LexDef{t, "tok", Lit(rune(t[0]))})
	}
	return out
}

type altKey struct {
	head string
	body string
}

// S1 enumerates all sets of at most maxAlts distinct alternatives over heads {S, A}, bodies empty or 1-2 symbols of
// {S, A, a, b}, containing an S-alternative, S-alternatives first; mirror images under a<->b removed.
// withUndefined keeps grammars that use A without defining it (C14's subject).
func S1(maxAlts int, withUndefined bool) []*Grammar {
	syms := []string{"S", "A", "a", "b"}
	var bodies [][]string
	bodies = append(bodies, nil)
	for _, x := range syms {
		bodies = append(bodies, []string{x})
	}
	for _, x := range syms {
		for _, y := range syms {
			bodies = append(bodies, []string{x, y})
		}
	}
	type alt struct {
		head string
		body []string
	}
	var alts []alt
	for _, h := range []string{"S", "A"} {
		for _, b := range bodies {
			alts = append(alts, alt{h, b})
		}
	}
	key := func(g []alt, swap bool) string {
		var ks []string
		for _, a := range g {
			b := strings.Join(a.body, " ")
			if swap {
				b = strings.NewReplacer("a", "b", "b", "a").Replace(b)
			}
			ks = append(ks, a.head+":"+b)
		}
		sort.Strings(ks)
		return strings.Join(ks, "|")
	}
	seen := map[string]bool{}
	var out []*Grammar
	var rec func(start int, cur []alt)
	emit := func(g []alt) {
		hasS := false
		defined := map[string]bool{}
		for _, a := range g {
			if a.head == "S" {
				hasS = true
			}
			defined[a.head] = true
		}
		if !hasS {
			return
		}
		if !withUndefined {
			for _, a := range g {
				for _, s := range a.body {
					if IsNT(s) && !defined[s] {
						return
					}
				}
			}
		}
		k1, k2 := key(g, false), key(g, true)
		if k2 < k1 {
			k1 = k2
		}
		if seen[k1] {
			return
		}
		seen[k1] = true
		gr := &Grammar{Lex: tokDefs([]string{"a", "b"})}
		for _, pass := range []string{"S", "A"} {
			for _, a := range g {
				if a.head != pass {
					continue
				}
				al := Alt{Head: a.head}
				for _, s := range a.body {
					al.Body = append(al.Body, Sym{Name: s})
				}
				gr.Alts = append(gr.Alts, al)
			}
		}
		out = append(out, gr)
	}
	rec = func(start int, cur []alt) {
		if len(cur) > 0 {
			emit(cur)
		}
		if len(cur) == maxAlts {
			return
		}
		for i := start; i < len(alts); i++ {
			rec(i+1, append(append([]alt(nil), cur...), alts[i]))
		}
	}
	rec(0, nil)
	sort.SliceStable(out, func(i, j int) bool { return len(out[i].Alts) < len(out[j].Alts) })
	return out
}

// mk builds a grammar from a compact notation: "S: a S b | empty ; A: error x" (string literals in double quotes).
func Mk(spec string, lexTerms ...string) *Grammar {
	g := &Grammar{}
	terms := map[string]bool{}
	var order []string
	for _, prod := range strings.Split(spec, ";") {
		prod = strings.TrimSpace(prod)
		if prod == "" {
			continue
		}
		i := strings.Index(prod, ":")
		head := strings.TrimSpace(prod[:i])
		for _, alt := range strings.Split(prod[i+1:], "|") {
			a := Alt{Head: head}
			for _, f := range strings.Fields(alt) {
				switch {
				case f == "empty":
				case f == "error":
					a.Err = true
				case strings.HasPrefix(f, `"`):
					// (~ inside a quoted name stands for a blank)
					a.Body = append(a.Body, Sym{Name: strings.ReplaceAll(strings.Trim(f, `"`), "~", " "), Str: true})
				default:
					a.Body = append(a.Body, Sym{Name: f})
					if !IsNT(f) && !terms[f] {
						terms[f] = true
						order = append(order, f)
					}
				}
			}
			g.Alts = append(g.Alts, a)
		}
	}
	if len(lexTerms) == 1 && lexTerms[0] == "-" {
		return g
	}
	g.Lex = tokDefs(order)
	return g
}

// S2: realistic and corner-case seeds.
func S2() []*Grammar {
	specs := []string{
		// expression grammars, ambiguous ones included
		"E: E plus E | E times E | a",
		"E: E plus T | T ; T: T times F | F ; F: lp E rp | a",
		"S: i S | i S e S | a",
		"S: A | B ; A: a ; B: a",
		"S: A | B | a ; A: a ; B: a",
		"S: A a | B b ; A: c ; B: c",
		"S: A a | B a ; A: c ; B: c",
		// lists / optional idioms
		"L: empty | L a",
		"L: a | L c a",
		"L: a L | empty",
		// five letter-named terminals expected at once (messages that enumerate "a, b, c or d")
		"S: Op n ; Op: alpha | beta | gamma | delta | eps",
		"S: S Op n | Op n ; Op: alpha | beta | gamma | delta | eps | zeta",
		"S: O a ; O: empty | b",
		"S: A B c ; A: empty | a ; B: empty | b",
		"S: A B C ; A: empty | a ; B: empty | b ; C: empty | c",
		// hidden left recursion, mutually recursive nullables, nullable tails
		"S: A S b | a ; A: empty",
		"S: A | a ; A: B ; B: A | b",
		"S: A B ; A: B | empty ; B: A | b",
		"S: a A B ; A: empty | a ; B: empty | b",
		// unreachable / unproductive
		"S: a ; A: b",
		"S: a | A ; A: A b",
		"S: S",
		"S: S | a",
		"S: A ; A: S | a",
		// LR(1) but not LALR(1)
		"S: a A d | b B d | a B e | b A e ; A: c ; B: c",
		// LR(2)
		"S: A b c | B b d ; A: a ; B: a",
		// string literal terminals
		`S: "x" S "y" | "xy"`,
		`S: "if" a "then" S | "if" a "then" S "else" S | b`,
		// reduce/reduce/reduce and shift+reduce+reduce
		"S: A | B | C ; A: a ; B: a ; C: a",
		"S: A b | B b | a b ; A: a ; B: a",
		// a non-terminal directly followed by a nullable (possibly left-recursive) non-terminal, with more to the right
		"S: H L ; H: a ; L: L x | empty",
		"S: H L b ; H: a ; L: empty | L x",
		"S: T O eq n | n ; T: n ; O: empty | lb n rb",
		"S: T O n semi ; T: i | c ; O: empty | star",
		"S: A B C d ; A: a ; B: empty | b ; C: empty | c",
		"S: L ; L: L I | empty ; I: a | b L c",
		"S: D S | empty ; D: T O n ; T: i ; O: empty | star O",
		// ladders of unit productions (FIRST needs several passes; each level has its own leading terminal)
		"S: s P A z ; P: q ; A: B | a ; B: C | b ; C: D | c ; D: E | d ; E: F | e ; F: f",
		"S: P A ; P: q ; A: B | a ; B: C | b ; C: D | c ; D: d",
		"D: d | x D ; C: D | c ; B: C | b ; A: B | a ; S: P A z ; P: q",
		"S: A B ; A: a | C ; C: c | D ; D: d | empty ; B: b | D",
		// bodies of length 3+
		"S: a S b S | empty",
		"S: a b c | a b d | A c ; A: a b",
	}
	// a string literal that contains a blank next to the sequence of its words (an item printed with blanks between
	// its symbols reads the same for both), and alternatives that are textually identical (two productions all the same:
	// the grammar is ambiguous, hence not LR(1))
	specs = append(specs,
		`S: "a~b" | "a" "b"`,
		`S: "a" "b" | "a~b"`,
		`S: A ; A: "a~b" "c" | "a" "b~c"`,
		`S: A ; A: "a~b" | "a" "b" | "a" B ; B: "b"`,
		`Rule: Column "not~null" semi | check Value "not" "null" semi ; Column: col ; Value: val`,
		`Rule: Column "not~null" | check Value "not" "null" ; Column: col ; Value: col`,
		`S: A "x~y" z | b A "x" "y" z | c B "x" "y~z" ; A: a ; B: a`,
		"S: a | a",
		"S: A | A ; A: a",
		"S: a b | c | a b",
		"S: A b ; A: a | empty | a")
	// terminals one of whose spellings is the concatenation of two others ( > > >> ,  < = <= ,  a b ab ): a tail
	// symbol followed by a look-ahead then reads like another look-ahead. Three shapes: LR(1) with the reduction
	// decided by > versus >>; the same made ambiguous by a third context; nested generics against a shift operator.
	for _, t := range [][3]string{{`">"`, `">"`, `">>"`}, {`"<"`, `"="`, `"<="`}, {"a", "b", "ab"}} {
		x, y, xy := t[0], t[1], t[2]
		specs = append(specs,
			"Top: Open "+y+" | Shift "+xy+" n ; Open: l Name "+x+" ; Shift: l Val ; Name: i ; Val: i",
			"Top: Open "+y+" | Shift "+xy+" n | Pack q ; Open: l Name "+x+" ; Shift: l Val ; Pack: l Arg "+xy+" ; Name: n ; Val: i ; Arg: i",
			"Def: Type i lp rp e E ; Type: i | i l Type "+x+" ; E: Prim "+xy+" E | Const "+xy+" E | Prim ; Prim: Var | lp E rp ; Var: i ; Const: i",
			"S: A "+x+" "+y+" | B "+xy+" ; A: c ; B: c",
			"S: l A "+x+" "+y+" | l B "+xy+" | A "+xy+" ; A: c ; B: c",
			"Expr: Expr "+xy+" Type | Type ; Type: i | i l Type "+x,
			"Expr: Type "+xy+" Expr | Type ; Type: i | i l Args "+x+" ; Args: Type | Args c Type")
	}
	var out []*Grammar
	for _, s := range specs {
		out = append(out, Mk(s))
	}
	// no lexical part at all (-no_lexer style)
	out = append(out, Mk("S: a S | b", "-"))
	return out
}

// Permutations returns every grammar obtained by permuting the alternatives of g (declaration order matters
// for automatic conflict resolution). At most limit results.
func Permutations(g *Grammar, limit int) []*Grammar {
	n := len(g.Alts)
	idx := make([]int, n)
	for i := range idx {
		idx[i] = i
	}
	var out []*Grammar
	var rec func(k int)
	rec = func(k int) {
		if len(out) >= limit {
			return
		}
		if k == n {
			// the start symbol must stay the head of the first alternative
			if g.Alts[idx[0]].Head != g.Alts[0].Head {
				return
			}
			ng := &Grammar{Lex: g.Lex, Header: g.Header}
			for _, i := range idx {
				ng.Alts = append(ng.Alts, g.Alts[i])
			}
			out = append(out, ng)
			return
		}
		for i := k; i < n; i++ {
			idx[k], idx[i] = idx[i], idx[k]
			rec(k + 1)
			idx[k], idx[i] = idx[i], idx[k]
		}
	}
	rec(0)
	return out
}

// S4: string-literal terminals with hostile content, as grammars with an AST (so that every table-level and
// compiled-code check applies to them, not only the generation checks): S : a L | L S.
func S4() []*Grammar {
	var out []*Grammar
	for _, c := range []string{"x\ny", "\r", "\"", "\\", "\\n", "%", "{{", "'", "*/", "//", "é", " ", "a b", "`", "<<", "$0", "\t", "\x00", "aa", "INVALIDx", "error_", "empty_"} {
		l := Sym{Name: c, Str: true}
		out = append(out, &Grammar{Lex: tokDefs([]string{"a"}), Alts: []Alt{
			{Head: "S", Body: []Sym{{Name: "a"}, l}},
			{Head: "S", Body: []Sym{l, {Name: "S"}}},
		}})
	}
	// the same hostile terminals as the ONLY terminal on which the grammar conflicts (shift/reduce in E : E L E | a,
	// reduce/reduce in S : A L | B L): the conflict has to be found whatever the terminal is called
	for _, c := range []string{"x\ny", "\r", "\"", "\\", "`", "\x00", "\uFEFF", "\xff", "é", "a b", "//", "*/"} {
		l := Sym{Name: c, Str: true}
		out = append(out, &Grammar{Lex: tokDefs([]string{"a"}), Alts: []Alt{
			{Head: "E", Body: []Sym{{Name: "E"}, l, {Name: "E"}}},
			{Head: "E", Body: []Sym{{Name: "a"}}},
		}}, &Grammar{Lex: tokDefs([]string{"a"}), Alts: []Alt{
			{Head: "S", Body: []Sym{{Name: "A"}, l}},
			{Head: "S", Body: []Sym{{Name: "B"}, l}},
			{Head: "A", Body: []Sym{{Name: "a"}}},
			{Head: "B", Body: []Sym{{Name: "a"}}},
		}})
	}
	// long bodies: attribute indices with two digits
	out = append(out, Mk("S: a b c a b c a b c a b c | c S"), Mk("S: A A A A A A A A A A A b | b ; A: a | empty"))
	return out
}

// S3: the alternatives of one head split over several rules with rules of another head in between
// (S : x ; A : ... ; S : y ;): gocc accepts this and treats the later rule as further alternatives.
func S3(maxAlts int) []*Grammar {
	var out []*Grammar
	seen := map[string]bool{}
	for _, g := range S1(maxAlts, false) {
		// positions of S alternatives and A alternatives
		var sIdx, aIdx []int
		for i, a := range g.Alts {
			if a.Head == "S" {
				sIdx = append(sIdx, i)
			} else {
				aIdx = append(aIdx, i)
			}
		}
		if len(sIdx) < 2 || len(aIdx) < 1 {
			if !(len(aIdx) >= 2 && len(sIdx) >= 1) {
				continue
			}
		}
		var orders [][]int
		if len(sIdx) >= 2 && len(aIdx) >= 1 {
			// S first-alternative, all A, remaining S
			o := []int{sIdx[0]}
			o = append(o, aIdx...)
			o = append(o, sIdx[1:]...)
			orders = append(orders, o)
		}
		if len(aIdx) >= 2 {
			// S..., A first, S? no: A first, S rest is impossible without a second S; use A, S, A with S first kept at front
			o := []int{sIdx[0], aIdx[0]}
			o = append(o, sIdx[1:]...)
			o = append(o, aIdx[1:]...)
			if len(sIdx) >= 2 {
				orders = append(orders, o)
			}
		}
		for _, o := range orders {
			ng := &Grammar{Lex: g.Lex}
			for _, i := range o {
				ng.Alts = append(ng.Alts, g.Alts[i])
			}
			t := ng.Text()
			if !seen[t] {
				seen[t] = true
				out = append(out, ng)
			}
		}
	}
	return out
}

// S6: large grammars - hundreds of productions (production and state numbers with three digits, item keys past any
// small threshold): 300 keyword alternatives of one non-terminal inside a statement list, a chain of 260
// non-terminals, and 64 non-terminals with four alternatives each.
func S6() []*Grammar {
	var gs []*Grammar
	{
		g := &Grammar{}
		g.Lex = append(g.Lex, LexDef{"n", "tok", Lit('1')}, LexDef{"semi", "tok", Lit(';')})
		g.Alts = append(g.Alts, Alt{Head: "Script", Body: []Sym{{Name: "Cmd"}}}, Alt{Head: "Script", Body: []Sym{{Name: "Script"}, {Name: "Cmd"}}},
			Alt{Head: "Cmd", Body: []Sym{{Name: "Op"}, {Name: "n"}, {Name: "semi"}}})
		for i := 1; i <= 300; i++ {
			name := fmt.Sprintf("k%03d", i)
			g.Lex = append(g.Lex, LexDef{name, "tok", Str(name)})
			g.Alts = append(g.Alts, Alt{Head: "Op", Body: []Sym{{Name: name}}})
		}
		gs = append(gs, g)
	}
	{
		g := &Grammar{Lex: []LexDef{{"x", "tok", Lit('x')}, {"y", "tok", Lit('y')}}}
		for i := 0; i < 260; i++ {
			h := fmt.Sprintf("A%d", i)
			if i < 259 {
				g.Alts = append(g.Alts, Alt{Head: h, Body: []Sym{{Name: fmt.Sprintf("A%d", i+1)}, {Name: "x"}}})
			}
			g.Alts = append(g.Alts, Alt{Head: h, Body: []Sym{{Name: "y"}}})
		}
		gs = append(gs, g)
	}
	{
		g := &Grammar{Lex: []LexDef{{"a", "tok", Lit('a')}, {"b", "tok", Lit('b')}, {"c", "tok", Lit('c')}, {"d", "tok", Lit('d')}}}
		for i := 0; i < 64; i++ {
			h := fmt.Sprintf("N%d", i)
			next := fmt.Sprintf("N%d", i+1)
			if i == 63 {
				next = "d"
			}
			g.Alts = append(g.Alts,
				Alt{Head: h, Body: []Sym{{Name: "a"}, {Name: next}}},
				Alt{Head: h, Body: []Sym{{Name: "b"}, {Name: next}, {Name: "b"}}},
				Alt{Head: h, Body: []Sym{{Name: "c"}}},
				Alt{Head: h, Body: []Sym{{Name: next}, {Name: "c"}, {Name: "c"}}})
		}
		gs = append(gs, g)
	}
	return gs
}
