#!/usr/bin/env python3
"""Throwaway prototype: reference canonical LR(1) + Earley vs gocc (exit status, conflict line, emitted tables)."""
import itertools, os, re, subprocess, sys, shutil
from concurrent.futures import ThreadPoolExecutor

GOCC = '/scratch/x/gocc'
WORK = '/dev/shm/lrproto'
EOF = '␚'

# grammar: list of (head, body tuple) ; start = first head ; terminals lower-case
def is_nt(s): return s[0].isupper()

def gtext(g, terms):
    lex = ''.join("%s : '%s' ;\n" % (t, t) for t in terms)
    prods = {}
    order = []
    for h, b in g:
        if h not in prods: prods[h] = []; order.append(h)
        prods[h].append(' '.join(b) if b else 'empty')
    return lex + ''.join('%s : %s ;\n' % (h, ' | '.join(prods[h])) for h in order)

def flat(g):
    """gocc's production order: grouped by head in order of first appearance"""
    order = []
    for h, b in g:
        if h not in order: order.append(h)
    out = []
    for h in order:
        out += [(hh, b) for hh, b in g if hh == h]
    return out

# ---------- FIRST / LR(1) ----------
def first_sets(P):
    nts = {h for h, _ in P}
    first = {n: set() for n in nts}
    nullable = set()
    ch = True
    while ch:
        ch = False
        for h, b in P:
            allnull = True
            for s in b:
                if is_nt(s):
                    add = first.get(s, set()) - first[h]
                    if add: first[h] |= add; ch = True
                    if s not in nullable: allnull = False; break
                else:
                    if s not in first[h]: first[h].add(s); ch = True
                    allnull = False; break
            if allnull and h not in nullable: nullable.add(h); ch = True
    return first, nullable

def first_seq(seq, la, first, nullable):
    out = set()
    for s in seq:
        if is_nt(s):
            out |= first.get(s, set())
            if s not in nullable: return out
        else:
            out.add(s); return out
    out.add(la); return out

def lr1(P):
    """P includes augmented production 0: ("S'", (start,))"""
    first, nullable = first_sets(P)
    byhead = {}
    for i, (h, b) in enumerate(P): byhead.setdefault(h, []).append(i)
    def closure(items):
        items = set(items); todo = list(items)
        while todo:
            pi, dot, la = todo.pop()
            b = P[pi][1]
            if dot < len(b) and is_nt(b[dot]):
                for t in first_seq(b[dot + 1:], la, first, nullable):
                    for qi in byhead.get(b[dot], []):
                        it = (qi, 0, t)
                        if it not in items: items.add(it); todo.append(it)
        return frozenset(items)
    s0 = closure({(0, 0, EOF)})
    states = [s0]; idx = {s0: 0}; trans = [{}]
    i = 0
    while i < len(states):
        I = states[i]
        syms = []
        for pi, dot, la in I:
            b = P[pi][1]
            if dot < len(b) and b[dot] not in syms: syms.append(b[dot])
        for X in sorted(syms):
            J = closure({(pi, dot + 1, la) for pi, dot, la in I if dot < len(P[pi][1]) and P[pi][1][dot] == X})
            if J not in idx:
                idx[J] = len(states); states.append(J); trans.append({})
            trans[i][X] = idx[J]
        i += 1
    actions = []
    for si, I in enumerate(states):
        row = {}
        for pi, dot, la in I:
            b = P[pi][1]
            if dot == len(b):
                a = ('acc',) if pi == 0 else ('red', pi)
                row.setdefault(la, set()).add(a)
            elif not is_nt(b[dot]):
                row.setdefault(b[dot], set()).add(('sh', trans[si][b[dot]]))
        actions.append(row)
    return states, trans, actions

def resolve(acts):
    sh = [a for a in acts if a[0] == 'sh']
    if sh: return sh[0]
    if ('acc',) in acts: return ('acc',)
    return min(a for a in acts if a[0] == 'red')

# ---------- Earley (recogniser) ----------
def earley(P, toks):
    start = P[0][0]
    n = len(toks)
    chart = [set() for _ in range(n + 1)]
    for i, (h, b) in enumerate(P):
        if h == start: chart[0].add((i, 0, 0))
    for k in range(n + 1):
        todo = list(chart[k])
        while todo:
            pi, dot, org = todo.pop()
            b = P[pi][1]
            if dot < len(b):
                s = b[dot]
                if is_nt(s):
                    for qi, (h, bb) in enumerate(P):
                        if h == s:
                            it = (qi, 0, k)
                            if it not in chart[k]: chart[k].add(it); todo.append(it)
                    # nullable completion already in chart
                    for (qi, qd, qo) in list(chart[k]):
                        if qo == k and P[qi][0] == s and qd == len(P[qi][1]):
                            it = (pi, dot + 1, org)
                            if it not in chart[k]: chart[k].add(it); todo.append(it)
                elif k < n and toks[k] == s:
                    chart[k + 1].add((pi, dot + 1, org))
            else:
                for (qi, qd, qo) in list(chart[org]):
                    bb = P[qi][1]
                    if qd < len(bb) and bb[qd] == P[pi][0]:
                        it = (qi, qd + 1, qo)
                        if it not in chart[k]: chart[k].add(it); todo.append(it)
    return any(P[pi][0] == start and dot == len(P[pi][1]) and org == 0 for pi, dot, org in chart[n])

# ---------- read gocc tables ----------
def read_tables(d):
    at = open(os.path.join(d, 'parser', 'actiontable.go')).read()
    rows = []
    for m in re.finditer(r'actionRow\{ // S\d+\n\t\tcanRecover: (\w+),\n\t\tactions: \[numSymbols\]action\{\n(.*?)\n\t\t\},', at, re.S):
        row = {}
        for ln in m.group(2).split('\n'):
            mm = re.match(r'\s*(nil|shift\((\d+)\)|reduce\((\d+)\)|accept\(true\)),\s*// (.*?)(?:, reduce: .*)?$', ln)
            a, sh, rd, sym = mm.groups()
            if a == 'nil': continue
            row[sym] = ('sh', int(sh)) if sh is not None else ('red', int(rd)) if rd is not None else ('acc',)
        rows.append(row)
    gt = open(os.path.join(d, 'parser', 'gototable.go')).read()
    gotos = []
    for m in re.finditer(r'gotoRow\{ // S\d+\n(.*?)\n\t\},', gt, re.S):
        row = {}
        for ln in m.group(1).split('\n'):
            mm = re.match(r'\s*(-?\d+),\s*// (\S+)', ln)
            if int(mm.group(1)) != -1: row[mm.group(2)] = int(mm.group(1))
        gotos.append(row)
    return rows, gotos

def run(args, d):
    pr = subprocess.run([GOCC] + args + ['-o', 'o', 'g.bnf'], cwd=d, capture_output=True, timeout=20)
    return pr.returncode, pr.stdout.decode(), pr.stderr.decode()

def check(g, terms, gid, N=5):
    text = gtext(g, terms)
    d = os.path.join(WORK, gid); os.makedirs(d, exist_ok=True)
    open(os.path.join(d, 'g.bnf'), 'w').write(text)
    P = [("S'", (g[0][0],))] + flat(g)
    states, trans, actions = lr1(P)
    confl = [(si, t) for si, row in enumerate(actions) for t, acts in row.items() if len(acts) > 1]
    accred = any(('acc',) in actions[si][t] for si, t in confl)
    rc, out, err = run([], d)
    m = re.search(r'(\d+) LR-1 conflicts', out)
    res = []
    if bool(confl) != bool(m) and not accred:
        res.append(('CONFLICT-REPORT', bool(confl), out.strip()))
    if not confl and rc != 0: res.append(('EXIT', rc, (out + err)[-300:]))
    if confl and rc == 0: res.append(('EXIT0-with-conflicts',))
    if confl:
        rc2, out2, err2 = run(['-a'], d)
        if accred:
            if rc2 == 0: res.append(('ACCRED-accepted',))
        elif rc2 != 0: res.append(('EXIT-a', rc2, (out2 + err2)[-300:]))
        if m and not accred:
            nst = len({si for si, t in confl})
            if int(m.group(1)) != nst: res.append(('CONFLICT-COUNT', int(m.group(1)), nst))
    kind = 'accred' if accred else 'conflict' if confl else 'lr1'
    if (rc == 0) or (confl and not accred and rc2 == 0):
        rows, gotos = read_tables(os.path.join(d, 'o'))
        # product exploration
        seen = {(0, 0)}; todo = [(0, 0)]
        while todo:
            gi, ri = todo.pop()
            syms = set(rows[gi]) | set(actions[ri]) | set(gotos[gi]) | {X for X in trans[ri] if is_nt(X)}
            for X in sorted(syms):
                if is_nt(X):
                    a, b = gotos[gi].get(X), trans[ri].get(X)
                    if (a is None) != (b is None): res.append(('GOTO', gi, ri, X)); continue
                    if a is not None and (a, b) not in seen: seen.add((a, b)); todo.append((a, b))
                    continue
                ia = rows[gi].get(X)
                ra = actions[ri].get(X)
                ra = resolve(ra) if ra else None
                if (ia is None) != (ra is None): res.append(('ACT-presence', gi, ri, X, ia, ra)); continue
                if ia is None: continue
                if ia[0] != ra[0]: res.append(('ACT-kind', gi, ri, X, ia, ra)); continue
                if ia[0] == 'red' and ia[1] != ra[1]: res.append(('ACT-prod', gi, ri, X, ia, ra))
                if ia[0] == 'sh' and (ia[1], ra[1]) not in seen: seen.add((ia[1], ra[1])); todo.append((ia[1], ra[1]))
        # language check of emitted tables vs Earley (conflict-free only)
        if not confl:
            ts = terms
            for n in range(0, N + 1):
                for w in itertools.product(ts, repeat=n):
                    acc = drive(rows, gotos, P, list(w))
                    if acc != earley(flat(g), list(w)):
                        res.append(('LANG', w, acc)); break
    shutil.rmtree(d)
    return kind, text, res

def drive(rows, gotos, P, toks):
    st = [0]; toks = toks + [EOF]; i = 0; steps = 0
    while True:
        steps += 1
        if steps > 10000: return 'LOOP'
        a = rows[st[-1]].get(toks[i])
        if a is None: return False
        if a[0] == 'acc': return True
        if a[0] == 'sh': st.append(a[1]); i += 1
        else:
            h, b = P[a[1]]
            if b: del st[-len(b):]
            st.append(gotos[st[-1]][h])

def family(maxalts):
    syms = ['S', 'A', 'a', 'b']
    bodies = [()] + [(x,) for x in syms] + [(x, y) for x in syms for y in syms]
    alts = [(h, b) for h in ['S', 'A'] for b in bodies]
    seen = set()
    for k in range(1, maxalts + 1):
        for g in itertools.combinations(alts, k):
            if not any(h == 'S' for h, b in g): continue
            used = {s for h, b in g for s in b if is_nt(s)}
            if not used <= {h for h, b in g}: continue
            m = {'a': 'b', 'b': 'a', 'S': 'S', 'A': 'A'}
            sw = tuple(sorted((h, tuple(m[x] for x in b)) for h, b in g))
            c = min(tuple(sorted(g)), sw)
            if c in seen: continue
            seen.add(c)
            g = sorted(g, key=lambda hb: (hb[0] != 'S',))  # S alternatives first, stable
            yield list(g)

def main():
    shutil.rmtree(WORK, ignore_errors=True); os.makedirs(WORK)
    open(os.path.join(WORK, 'go.mod'), 'w').write('module vt\ngo 1.24\n')
    maxalts = int(sys.argv[1]); stride = int(sys.argv[2]) if len(sys.argv) > 2 else 1
    fam = list(family(maxalts))[::stride]
    kinds = {}; bad = []
    def job(ig):
        i, g = ig
        try:
            return check(g, ['a', 'b'], 'g%d' % i)
        except Exception as e:
            return ('exc', gtext(g, ['a', 'b']), [('EXC', repr(e))])
    with ThreadPoolExecutor(16) as ex:
        for kind, text, res in ex.map(job, enumerate(fam)):
            kinds[kind] = kinds.get(kind, 0) + 1
            if res: bad.append((kind, text, res))
    print('grammars', len(fam), kinds, 'bad', len(bad))
    for kind, text, res in bad[:int(sys.argv[3]) if len(sys.argv) > 3 else 10]:
        print('---', kind); print(text.strip()); print('   ', res[:4])
    shutil.rmtree(WORK, ignore_errors=True)

main()
