#!/usr/bin/env python3
"""Throwaway: reference recovery machine (R-rec, transcription of C07) vs the real compiled Parse."""
import itertools, os, subprocess, sys, shutil, re
sys.argv=['x','0']
src=open('lrproto.py').read().split('def main():')[0]
exec(src)

RT='''package rt
import ("errors";"fmt")
type Node struct{Alt int; Args []interface{}}
type Recorder struct{Calls []string; Show func(interface{}) string}
var ErrInjected = errors.New("injected")
func A(ctx interface{}, alt int, args ...interface{}) (interface{}, error) {
	r := ctx.(*Recorder)
	n := &Node{alt, append([]interface{}(nil), args...)}
	r.Calls = append(r.Calls, r.Show(n))
	return n, nil
}
func ShowNode(n *Node, show func(interface{}) string) string {
	s := fmt.Sprintf("N%d(", n.Alt)
	for i, a := range n.Args { if i > 0 { s += "," }; s += show(a) }
	return s + ")"
}
'''
DRV='''package main
import ("bufio";"fmt";"os";"strings";"vt/rt";perr "vt/o/errors";"vt/o/parser";"vt/o/token")
type scr struct{toks []*token.Token; i int; idx map[*token.Token]int}
func (s *scr) Scan() *token.Token { if s.i < len(s.toks) { s.i++; return s.toks[s.i-1] }; t := &token.Token{Type: token.EOF}; s.idx[t] = len(s.toks); s.i++; return t }
func main(){ sc:=bufio.NewScanner(os.Stdin); for sc.Scan(){ one(strings.Fields(sc.Text())) } }
func one(in []string){
	s := &scr{idx: map[*token.Token]int{}}
	for i, n := range in { t := &token.Token{Type: token.TokMap.Type(n), Lit: []byte(n)}; s.toks = append(s.toks, t); s.idx[t] = i }
	var show func(v interface{}) string
	show = func(v interface{}) string {
		switch x := v.(type) {
		case nil: return "nil"
		case *token.Token: return fmt.Sprintf("t%d", s.idx[x])
		case *rt.Node: return rt.ShowNode(x, show)
		case *perr.Error:
			r := fmt.Sprintf("E(t%d;", s.idx[x.ErrorToken])
			for i, e := range x.ErrorSymbols { if i > 0 { r += "," }; r += show(e) }
			return r + ")"
		}
		return fmt.Sprintf("?%T", v)
	}
	rec := &rt.Recorder{Show: show}
	p := parser.NewParser(); p.Context = rec
	defer func(){ if r := recover(); r != nil { fmt.Printf("PANIC scans=%d calls=%s\\n", s.i, strings.Join(rec.Calls, " ")) } }()
	res, err := p.Parse(s)
	if err != nil { fmt.Printf("ERR scans=%d calls=%s\\n", s.i, strings.Join(rec.Calls, " ")) } else { fmt.Printf("OK %s scans=%d calls=%s\\n", show(res), s.i, strings.Join(rec.Calls, " ")) }
}
'''
def gtext2(g, terms):
    lex=''.join("%s : '%s' ;\n"%(t,c) for t,c in terms.items())
    out=lex+'<< import "vt/rt" >>\n'
    P=flat(g); heads=[]
    for h,b in P:
        if h not in heads: heads.append(h)
    k=0
    for h in heads:
        alts=[]
        for hh,b in P:
            if hh!=h: continue
            k+=1
            args=''.join(', $%d'%i for i in range(len(b)))
            alts.append('%s << rt.A($Context, %d%s) >>'%(' '.join(b) if b else 'empty',k,args))
        out+='%s : %s ;\n'%(h,' | '.join(alts))
    return out

def rrec(P, actions, trans, toks):
    """P augmented; returns rendering like the Go driver"""
    toks=list(toks)
    def tokat(i): return toks[i] if i<len(toks) else EOF
    st=[0]; at=[None]; i=0; scans=1; calls=[]
    def act(s,t):
        a=actions[s].get(t)
        return next(iter(a)) if a else None
    steps=0
    while True:
        steps+=1
        if steps>5000: return 'LOOP'
        t=tokat(i)
        a=act(st[-1],t)
        if a is None:
            # error: topmost state with shift on error
            j=len(st)-1
            while j>=0 and not (act(st[j],'error') and act(st[j],'error')[0]=='sh'): j-=1
            if j<0: return 'ERR scans=%d calls=%s'%(scans,' '.join(calls))
            popped=at[j+1:]; del st[j+1:]; del at[j+1:]
            st.append(act(st[-1],'error')[1]); at.append('E(t%d;%s)'%(i,','.join(popped)))
            while act(st[-1],tokat(i)) is None:
                if tokat(i)==EOF: return 'ERR scans=%d calls=%s'%(scans,' '.join(calls))
                i+=1; scans+=1
            continue
        if a[0]=='acc': return 'OK %s scans=%d calls=%s'%(at[-1],scans,' '.join(calls))
        if a[0]=='sh': st.append(a[1]); at.append('t%d'%i); i+=1; scans+=1
        else:
            h,b=P[a[1]]; n=len(b)
            args=at[len(at)-n:] if n else []
            if n: del st[-n:]; del at[-n:]
            v='N%d(%s)'%(a[1],','.join(args)); calls.append(v)
            st.append(trans[st[-1]][h]); at.append(v)

def run(g, terms, N):
    W='/dev/shm/recproto'; shutil.rmtree(W,ignore_errors=True); os.makedirs(W+'/cmd'); os.makedirs(W+'/rt')
    open(W+'/go.mod','w').write('module vt\ngo 1.24\n'); open(W+'/rt/rt.go','w').write(RT); open(W+'/cmd/main.go','w').write(DRV)
    text=gtext2(g,terms); open(W+'/g.bnf','w').write(text)
    pr=subprocess.run(['/scratch/x/gocc','-o','o','g.bnf'],cwd=W,capture_output=True,text=True)
    if pr.returncode!=0: print(text,'gocc exit',pr.returncode,pr.stdout[-300:]); return
    subprocess.run(['go','build','-o','drv','./cmd'],cwd=W,check=True)
    P=[("S'",(g[0][0],))]+flat(g)
    states,trans,actions=lr1(P)
    assert not any(len(a)>1 for r in actions for a in r.values()),'conflict'
    ts=[t for t in terms]
    inputs=[w for n in range(0,N+1) for w in itertools.product(ts,repeat=n)]
    out=subprocess.run([W+'/drv'],input='\n'.join(' '.join(w) for w in inputs)+'\n',capture_output=True,text=True).stdout.split('\n')
    bad={}
    for w,line in zip(inputs,out):
        exp=rrec(P,actions,trans,w)
        if exp!=line.strip():
            cls='PANIC' if line.startswith('PANIC') else 'verdict' if exp.split()[0]!=line.split()[0] else 'detail'
            bad.setdefault(cls,[]).append((w,exp,line.strip()))
    print(' ; '.join('%s : %s'%(h,' '.join(b) or 'empty') for h,b in flat(g)),'| inputs',len(inputs),'| mismatches',{k:len(v) for k,v in bad.items()})
    for k,v in bad.items():
        for w,exp,actl in v[:2]: print('   ',k,' '.join(w)); print('      exp',exp); print('      act',actl)
    shutil.rmtree(W,ignore_errors=True)

T={'a':'a','b':'b','semi':';'}
run([('S',('Stmts',)),('Stmts',('Stmt',)),('Stmts',('Stmts','Stmt')),('Stmt',('error','semi')),('Stmt',('a','semi'))],T,5)
run([('S',('A','b')),('A',('a',)),('A',('error',))],T,5)
run([('S',('error',)),('S',('a','b'))],T,5)
run([('S',('a','A','b')),('A',('error',)),('A',('a',))],T,5)
run([('S',('L',)),('L',()),('L',('L','E')),('E',('a','semi')),('E',('error','semi')),('E',('b','L','b'))],T,5)
