#!/usr/bin/env python3
"""Throwaway: shipped front-end tables (tables.go) vs canonical LR(1) of spec/gocc2.ebnf."""
import re, sys
sys.argv=['x','0']
src=open('lrproto.py').read().split('def main():')[0]
exec(src)
TOK=["␚","id","tokId",":",";","regDefId","ignoredTokId","|",".","char_lit","-","[","]","{","}","(",")","prodId","g_sdt_lit","error","empty","string_lit"]
# read the ebnf syntax part
eb=open('/repo/spec/gocc2.ebnf').read()
eb=re.sub(r'/\*.*?\*/','',eb,flags=re.S)
eb=re.sub(r'//[^\n]*','',eb)
eb=re.sub(r'<<.*?>>','',eb,flags=re.S)
toks=re.findall(r'"[^"]*"|[A-Za-z_][A-Za-z_0-9]*|[:;|]',eb)
P=[]; i=0
while i<len(toks):
    head=toks[i]; assert toks[i+1]==':' ,(head,toks[i+1]); i+=2
    body=[]
    while True:
        t=toks[i]; i+=1
        if t in ('|',';'):
            P.append((head,tuple(body))); body=[]
            if t==';': break
        else:
            body.append(t[1:-1] if t[0]=='"' else t)
print(len(P),'productions; start',P[0][0])
# is_nt: heads
heads={h for h,b in P}
is_nt=lambda s: s in heads or s=="S'"
G=[("S'",(P[0][0],))]+P
states,trans,actions=lr1(G)
print('reference states',len(states),'conflicts',sum(1 for r in actions for a in r.values() if len(a)>1))
# shipped tables
tb=open('/repo/internal/frontend/parser/tables.go').read()
prods=re.findall(r'ProdTabEntry\{\n\t\t"(.*?)",\n\t\t"(.*?)",\n\t\t(\d+),',tb)
sp=[]
for s,h,n in prods:
    body=s.split(' : ',1)[1]
    body=re.sub(r'<<.*?>> ;$','',body).strip()
    body=re.sub(r' ;$','',body).strip()
    sp.append((h,tuple(body.split()) if body else (),int(n)))
acts=[]
for m in re.finditer(r'// state (\d+)\n\t&ActionRow\{\n\t\tcanRecover: (\w+),\n\t\tActions: Actions\{\n(.*?)\n\t\t\},',tb,re.S):
    row={}
    for a in re.finditer(r'(\d+):\s+(Shift|Reduce|Accept)\((\d+)\)',m.group(3)):
        row[TOK[int(a.group(1))]]=({'Shift':'sh','Reduce':'red','Accept':'acc'}[a.group(2)],int(a.group(3)))
    acts.append(row)
gots=[]
for m in re.finditer(r'// state (\d+)\n\tGotoRow\{(.*?)\},?\n',tb,re.S):
    gots.append({a:int(b) for a,b in re.findall(r'"(\w+!?)":\s+State\((\d+)\)',m.group(2))})
print('shipped states',len(acts),len(gots),'prods',len(sp))
bad=[]
seen={(0,0)};todo=[(0,0)]
edges=0
while todo:
    si,ri=todo.pop()
    for X in sorted(set(acts[si])|set(actions[ri])|set(gots[si])|{x for x in trans[ri] if is_nt(x)}):
        edges+=1
        if is_nt(X):
            a,b=gots[si].get(X),trans[ri].get(X)
            if (a is None)!=(b is None): bad.append(('goto',si,ri,X));continue
            if a is not None and (a,b) not in seen: seen.add((a,b));todo.append((a,b))
            continue
        ia=acts[si].get(X); ra=actions[ri].get(X)
        if ra and len(ra)>1: bad.append(('refconflict',ri,X));continue
        ra=next(iter(ra)) if ra else None
        if (ia is None)!=(ra is None): bad.append(('presence',si,ri,X,ia,ra));continue
        if ia is None: continue
        if ia[0]!=ra[0]: bad.append(('kind',si,ri,X,ia,ra));continue
        if ia[0]=='red':
            h,b,n=sp[ia[1]]; rh,rb=G[ra[1]]
            if h.replace('!',"'")!=rh or n!=len(rb) or tuple(b)!=tuple(rb): bad.append(('prod',si,ri,X,sp[ia[1]],G[ra[1]]))
        if ia[0]=='sh' and (ia[1],ra[1]) not in seen: seen.add((ia[1],ra[1]));todo.append((ia[1],ra[1]))
print('pairs',len(seen),'edges',edges,'bad',len(bad)); print(bad[:10])
