#!/usr/bin/env python3
"""Throwaway: reference tokenizer (R-tok, transcription of C01+C08) vs the real compiled Scan."""
import itertools, os, subprocess, sys, json, shutil
src=open('lexproto.py').read().split('# ---------- reading gocc output')[0]
exec(src)

def decode(b, i):
    # mimic utf8.DecodeRune
    try:
        for n in (1,2,3,4):
            if i+n<=len(b):
                try:
                    s=b[i:i+n].decode('utf-8')
                    if len(s)==1: return ord(s), n
                except UnicodeDecodeError: pass
        return 0xFFFD,1
    except Exception: return 0xFFFD,1

def rtok(ref, b):
    """returns list of (kind/name, lit, off, line, col)"""
    out=[]; p=0; line=1; col=1
    def adv(r):
        nonlocal line,col
        if r==10: line+=1; col=1
        elif r==13: col=1
        elif r==9: col+=4
        else: col+=1
    guard=0
    while True:
        guard+=1
        if p>=len(b):
            out.append(('EOF',b'',p,line,col))
            if len(out)>0 and sum(1 for o in out if o[0]=='EOF')>=3: return out
            continue
        start,sl,sc=p,line,col
        S=ref.init(); typ='INVALID'
        while True:
            if p>=len(b): kill=None; break
            r,n=decode(b,p)
            S2=ref.step(S,r)
            if S2 is None: kill=(r,n); break
            p+=n; adv(r); S=S2
            v=ref.verdict(S)
            if v[0]=='ign':
                start,sl,sc=p,line,col; S=ref.init(); typ='INVALID'
                if p>=len(b): typ='EOF'
                continue
            typ = v[1] if v[0]=='acc' else 'INVALID'
        if typ=='EOF':
            out.append(('EOF',b'',p,line,col)); continue
        if typ=='INVALID' and kill is not None:
            p+=kill[1]; adv(kill[0])
        if p==start:  # nothing consumed and not EOF: cannot happen
            raise Exception('stuck')
        out.append((typ,b[start:p],start,sl,sc))

DRV='''package main
import ("bufio";"fmt";"os";"encoding/hex";"vt/o/lexer";"vt/o/token")
func main(){ sc:=bufio.NewScanner(os.Stdin); for sc.Scan(){ b,_:=hex.DecodeString(sc.Text()); l:=lexer.NewLexer(b); eofs:=0
 for i:=0;i<64&&eofs<3;i++{ t:=l.Scan(); if t.Type==token.EOF{eofs++}; fmt.Printf("%s:%x:%d:%d:%d ",token.TokMap.Id(t.Type),t.Lit,t.Pos.Offset,t.Pos.Line,t.Pos.Column)}; fmt.Println()}}
'''
def run(defs, alphabet, N):
    W='/dev/shm/tokproto'; shutil.rmtree(W,ignore_errors=True); os.makedirs(W+'/cmd')
    open(W+'/go.mod','w').write('module vt\ngo 1.24\n')
    text=''.join('%s : %s ;\n'%(n,show(p)) for n,k,p in defs)
    open(W+'/g.bnf','w').write(text)
    subprocess.run(['/scratch/x/gocc','-o','o','g.bnf'],cwd=W,check=True,capture_output=True)
    open(W+'/cmd/main.go','w').write(DRV)
    subprocess.run(['go','build','-o','drv','./cmd'],cwd=W,check=True)
    inputs=[b''.join(w) for n in range(0,N+1) for w in itertools.product(alphabet,repeat=n)]
    out=subprocess.run([W+'/drv'],input='\n'.join(i.hex() for i in inputs)+'\n',capture_output=True,text=True).stdout.split('\n')
    ref=Ref(defs); bad={}
    for inp,line in zip(inputs,out):
        exp=' '.join('%s:%s:%d:%d:%d'%(('␚' if k=='EOF' else k),l.hex(),o,ln,c) for k,l,o,ln,c in rtok(ref,inp))
        if exp!=line.strip():
            # classify first difference
            e=exp.split(' '); a=line.strip().split(' ')
            j=next((i for i,(x,y) in enumerate(zip(e,a)) if x!=y),min(len(e),len(a)))
            ef=e[j].split(':') if j<len(e) else ['-']*5; af=a[j].split(':') if j<len(a) else ['-']*5
            cls='type' if ef[0]!=af[0] else 'lit' if ef[1]!=af[1] else 'offset' if ef[2]!=af[2] else 'linecol'
            bad.setdefault(cls,[]).append((inp,exp,line.strip()))
    print(text.strip().replace('\n','  '),'| inputs',len(inputs),'| mismatches',{k:len(v) for k,v in bad.items()})
    for k,v in bad.items():
        inp,exp,act=v[0]; print('   ',k,repr(inp)); print('      exp',exp); print('      act',act)
    shutil.rmtree(W,ignore_errors=True)

A,B,D=('lit',97),('lit',98),('dot',)
alpha=[b'a',b'b',b'c',b'\n',b'\t',b'\xc3\xa9',b'\xff']
run([('t','tok',('seq',[A,B])),('!w','ign',('lit',99))],alpha,4)
run([('t','tok',A),('!ab','ign',('seq',[A,B])),('q','tok',('lit',99))],alpha,4)
run([('id','tok',('seq',[A,('rep',('alt',[A,B]))])),('!ws','ign',('alt',[('lit',10),('lit',9)])),('any','tok',('seq',[B,D]))],alpha,4)
