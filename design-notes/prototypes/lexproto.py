#!/usr/bin/env python3
"""Throwaway prototype: reference position automaton (R-lex) vs gocc's emitted lexer tables.
Validates the DESIGN readings (macro expansion, '.' fallback, priority) on small grammar families."""
import itertools, os, re, subprocess, sys, shutil, json

GOCC = '/scratch/x/gocc'
WORK = '/dev/shm/lexproto'

# ---------- pattern AST ----------
# ('lit', r) ('rng', lo, hi) ('dot',) ('ref', name) ('seq', [..]) ('alt', [..]) ('opt', p) ('rep', p) ('grp', p)

def rs(r):
    c = chr(r)
    if 0x20 < r < 0x7f and c not in "'\\":
        return "'%s'" % c
    if r < 0x10000:
        return "'\\u%04x'" % r
    return "'\\U%08x'" % r

def show(p, top=True):
    k = p[0]
    if k == 'lit': return rs(p[1])
    if k == 'rng': return '%s-%s' % (rs(p[1]), rs(p[2]))
    if k == 'dot': return '.'
    if k == 'ref': return p[1]
    if k == 'seq': return ' '.join(show(x, False) for x in p[1])
    if k == 'alt':
        s = ' | '.join(show(x, True) for x in p[1])
        return s if top else '(' + s + ')'
    if k == 'opt': return '[ ' + show(p[1]) + ' ]'
    if k == 'rep': return '{ ' + show(p[1]) + ' }'
    if k == 'grp': return '( ' + show(p[1]) + ' )'
    raise Exception(k)

# ---------- reference: Glushkov with macro expansion ----------
class Ref:
    def __init__(self, defs):
        # defs: list of (name, kind, pattern) kind in tok/ign/reg, in declaration order
        self.defs = defs
        self.regs = {n: p for n, k, p in defs if k == 'reg'}
        self.pos = []      # position -> ('lit',r)|('rng',lo,hi)|('dot',)
        self.follow = []   # position -> set
        self.pat = []      # (name, kind, index, first, last, nullable)
        for idx, (n, k, p) in enumerate(defs):
            if k == 'reg': continue
            nullable, first, last = self.build(p, 0)
            self.pat.append((n, k, idx, first, last, nullable))
        self.lastof = {}
        for pi, (n, k, idx, first, last, nullable) in enumerate(self.pat):
            for q in last:
                self.lastof.setdefault(q, set()).add(pi)

    def newpos(self, leaf):
        self.pos.append(leaf); self.follow.append(set()); return len(self.pos) - 1

    def build(self, p, depth):
        if depth > 20: raise Exception('recursive regdef')
        k = p[0]
        if k in ('lit', 'rng', 'dot'):
            q = self.newpos(p); return False, {q}, {q}
        if k == 'ref':
            return self.build(self.regs[p[1]], depth + 1)
        if k == 'grp':
            return self.build(p[1], depth)
        if k == 'opt':
            n, f, l = self.build(p[1], depth); return True, f, l
        if k == 'rep':
            n, f, l = self.build(p[1], depth)
            for q in l: self.follow[q] |= f
            return True, f, l
        if k == 'alt':
            N, F, L = False, set(), set()
            for x in p[1]:
                n, f, l = self.build(x, depth); N |= n; F |= f; L |= l
            return N, F, L
        if k == 'seq':
            N, F, L = True, set(), set()
            for x in p[1]:
                n, f, l = self.build(x, depth)
                for q in L: self.follow[q] |= f
                if N: F |= f
                L = (L | l) if n else set(l)
                N = N and n
            return N, F, L
        raise Exception(k)

    def init(self):
        S = set()
        for (n, k, idx, first, last, nullable) in self.pat: S |= first
        return (frozenset(S), frozenset())

    def matches(self, q, r):
        leaf = self.pos[q]
        if leaf[0] == 'lit': return leaf[1] == r
        if leaf[0] == 'rng': return leaf[1] <= r <= leaf[2]
        return False

    def step(self, st, r):
        S, _ = st
        E = [q for q in S if self.matches(q, r)]
        if not E:
            E = [q for q in S if self.pos[q][0] == 'dot']
        nxt, done = set(), set()
        for q in E:
            nxt |= self.follow[q]
            done |= self.lastof.get(q, set())
        if not E: return None
        return (frozenset(nxt), frozenset(done))

    def verdict(self, st, strlits=()):
        _, done = st
        if not done: return ('none',)
        best = None
        for pi in done:
            n, k, idx, *_ = self.pat[pi]
            if n in strlits: return ('acc', n)
            if best is None or idx < best[2]: best = (n, k, idx)
        return ('acc', best[0]) if best[1] == 'tok' else ('ign', best[0])

    def bounds(self):
        b = {0, 0x10ffff}
        for leaf in self.pos:
            if leaf[0] == 'lit': b |= {leaf[1] - 1, leaf[1], leaf[1] + 1}
            if leaf[0] == 'rng': b |= {leaf[1] - 1, leaf[1], leaf[2], leaf[2] + 1}
        return b

# ---------- reading gocc output ----------
def read_tables(d):
    tt = open(os.path.join(d, 'lexer', 'transitiontable.go')).read()
    states = []
    for m in re.finditer(r'// S(\d+)\n\tfunc\(r rune\) int \{\n\t\tswitch \{\n(.*?)\n\t\},', tt, re.S):
        body = m.group(2)
        cases, default = [], None
        lines = body.split('\n')
        i = 0
        while i < len(lines):
            ln = lines[i].strip()
            mm = re.match(r'case r == (-?\d+):', ln)
            if mm:
                v = int(mm.group(1)); nxt = int(re.match(r'return (-?\d+)', lines[i + 1].strip()).group(1))
                cases.append((v, v, nxt)); i += 2; continue
            mm = re.match(r'case (-?\d+) <= r && r <= (-?\d+):', ln)
            if mm:
                nxt = int(re.match(r'return (-?\d+)', lines[i + 1].strip()).group(1))
                cases.append((int(mm.group(1)), int(mm.group(2)), nxt)); i += 2; continue
            if ln == 'default:':
                default = int(re.match(r'return (-?\d+)', lines[i + 1].strip()).group(1)); i += 2; continue
            i += 1
        states.append((cases, default))
    at = open(os.path.join(d, 'lexer', 'acttab.go')).read()
    acts = [(int(a), ig) for a, ig in re.findall(r'ActionRow\{ // S\d+\n\t\tAccept: (-?\d+),\n\t\tIgnore: "(.*?)",', at)]
    tk = open(os.path.join(d, 'token', 'token.go')).read()
    tm = re.search(r'typeMap: \[\]string\{(.*?)\n\t\},', tk, re.S).group(1)
    typemap = [json.loads(x) for x in re.findall(r'^\s*("(?:[^"\\]|\\.)*"),$', tm, re.M)]
    return states, acts, typemap

def impl_step(states, s, r):
    cases, default = states[s]
    for lo, hi, nxt in cases:
        if lo <= r <= hi: return nxt
    return default if default is not None else -1

def impl_verdict(acts, typemap, s):
    a, ig = acts[s]
    if ig != '': return ('ign', ig)
    if a == 0: return ('none',)
    if a == -1: return ('weird',)
    return ('acc', typemap[a])

# ---------- product exploration ----------
def check(defs, gid, syntax=''):
    text = ''.join('%s : %s ;\n' % (n, show(p)) for n, k, p in defs) + syntax
    d = os.path.join(WORK, gid)
    os.makedirs(d, exist_ok=True)
    open(os.path.join(d, 'g.bnf'), 'w').write(text)
    try:
        pr = subprocess.run([GOCC, '-o', 'o', 'g.bnf'], cwd=d, capture_output=True, timeout=10)
    except subprocess.TimeoutExpired:
        shutil.rmtree(d); return ('HANG', text)
    if pr.returncode != 0:
        shutil.rmtree(d); return ('EXIT%d' % pr.returncode, text, pr.stdout.decode()[:200] + pr.stderr.decode()[:300])
    states, acts, typemap = read_tables(os.path.join(d, 'o'))
    shutil.rmtree(d)
    ref = Ref(defs)
    reps = set()
    for s in states:
        for lo, hi, _ in s[0]: reps |= {lo - 1, lo, hi, hi + 1}
    reps |= ref.bounds()
    reps = sorted(r for r in reps if 0 <= r <= 0x10ffff and not (0xd800 <= r < 0xe000))
    start = (0, ref.init())
    seen = {start: ()}
    todo = [start]
    edges = 0
    while todo:
        cur = todo.pop(0)
        s, P = cur
        for r in reps:
            edges += 1
            ns = impl_step(states, s, r)
            nP = ref.step(P, r)
            path = seen[cur] + (r,)
            if (ns == -1) != (nP is None):
                return ('MISMATCH-live', text, path, ns, nP is None)
            if ns == -1: continue
            iv, rv = impl_verdict(acts, typemap, ns), ref.verdict(nP)
            if iv != rv:
                return ('MISMATCH-verdict', text, path, iv, rv)
            nx = (ns, nP)
            if nx not in seen:
                seen[nx] = path; todo.append(nx)
    return ('OK', len(seen), edges)

# ---------- families ----------
A, B, R, D = ('lit', 97), ('lit', 98), ('rng', 97, 98), ('dot',)
ATOMS = [A, B, R, D]

def trees(n, atoms):
    if n == 1: return list(atoms)
    out = []
    for k in range(1, n):
        for l in trees(k, atoms):
            for r in trees(n - k, atoms):
                out.append(('seq', [l, r])); out.append(('alt', [l, r]))
    return out

def wrap1(t):
    """all ways to put at most one wrapper on one node"""
    yield t
    for w in ('opt', 'rep', 'grp'):
        yield (w, t)
    if t[0] in ('seq', 'alt'):
        for i, c in enumerate(t[1]):
            for c2 in wrap1(c):
                if c2 is c: continue
                ch = list(t[1]); ch[i] = c2
                yield (t[0], ch)

def main():
    shutil.rmtree(WORK, ignore_errors=True); os.makedirs(WORK)
    open(os.path.join(WORK, 'go.mod'), 'w').write('module vt\ngo 1.24\n')
    fam = []
    which = sys.argv[1] if len(sys.argv) > 1 else 'l1'
    if which == 'l1':
        for n in (1, 2):
            for t in trees(n, ATOMS):
                for w in wrap1(t):
                    fam.append([('t', 'tok', w)])
    elif which == 'l2':
        pats = [w for n in (1, 2) for t in trees(n, [A, B, D]) for w in wrap1(t)]
        pats = pats[::3]
        for p, q in itertools.product(pats[:40], pats[:40]):
            fam.append([('t', 'tok', p), ('u', 'tok', q)])
            fam.append([('t', 'tok', p), ('!u', 'ign', q)])
        fam = fam[::5]
    elif which == 'l3':
        regs = [('seq', [A, B]), ('seq', [A, A]), ('alt', [A, ('seq', [A, B])]), A, ('rep', A), ('seq', [A, ('opt', B)])]
        uses = [('seq', [('ref', '_r'), B]), ('seq', [A, ('ref', '_r')]), ('seq', [('ref', '_r'), ('ref', '_r')]),
                ('rep', ('ref', '_r')), ('seq', [('opt', A), ('ref', '_r')]), ('ref', '_r')]
        for rg in regs:
            for u1 in uses:
                fam.append([('t', 'tok', u1), ('_r', 'reg', rg)])
                for u2 in uses:
                    fam.append([('t', 'tok', u1), ('u', 'tok', u2), ('_r', 'reg', rg)])
    res = {}
    bad = []
    for i, defs in enumerate(fam):
        r = check(defs, 'g%d' % i)
        res[r[0]] = res.get(r[0], 0) + 1
        if r[0] != 'OK':
            bad.append(r)
    print(which, 'grammars:', len(fam), res)
    for b in bad[:int(sys.argv[2]) if len(sys.argv) > 2 else 12]:
        print('---', b[0]); print(b[1].strip()); print('   ', b[2:])
    shutil.rmtree(WORK, ignore_errors=True)

main()
