package gen

import (
	"bytes"
	"compress/gzip"
	"encoding/gob"
	"fmt"
	"os"
	"path/filepath"
	"regexp"
	"strconv"
	"strings"
)

// LexCase is one case of an emitted transition function: lo <= r <= hi -> next.
type LexCase struct {
	Lo, Hi rune
	Next   int
}

type LexState struct {
	Cases      []LexCase
	HasDefault bool
	Default    int
	Other      []string // case lines that are not rune tests (imports): not modelled
}

type LexAct struct {
	Accept int
	Ignore string
}

// LexTables is what was read back from lexer/transitiontable.go and lexer/acttab.go.
type LexTables struct {
	States []LexState
	Acts   []LexAct
}

// Step evaluates the emitted transition function as Go would: first matching case, else default, else NoState.
func (t *LexTables) Step(s int, r rune) int {
	st := &t.States[s]
	for _, c := range st.Cases {
		if c.Lo <= r && r <= c.Hi {
			return c.Next
		}
	}
	if st.HasDefault {
		return st.Default
	}
	return -1
}

var (
	// a bound is any Go integer or rune literal (the generator writes decimals today; another spelling of the same
	// number is the same table)
	reCaseEq  = regexp.MustCompile(`^case r == (` + goNum + `):`)
	reCaseRng = regexp.MustCompile(`^case (` + goNum + `) <= r && r <= (` + goNum + `):`)
	reReturn  = regexp.MustCompile(`^return (-?\d+|NoState)$`)
	reState   = regexp.MustCompile(`^// S(\d+)$`)
)

const goNum = `-?\d+|-?0[xX][0-9a-fA-F_]+|'(?:[^'\\\n]|\\[^\n]+?)'`

func atoi(s string) int { n, _ := strconv.Atoi(s); return n }

// goRune evaluates an integer or rune literal as the Go compiler would (ok=false if it is not one).
func goRune(s string) (rune, bool) {
	if strings.HasPrefix(s, "'") {
		v, _, tail, err := strconv.UnquoteChar(s[1:], '\'')
		if err != nil || tail != "'" {
			return 0, false
		}
		return v, true
	}
	n, err := strconv.ParseInt(strings.ReplaceAll(s, "_", ""), 0, 64)
	if err != nil || n < -1<<31 || n > 1<<31-1 {
		return 0, false
	}
	return rune(n), true
}

// ReadLexTables parses the emitted lexer tables below dir (the -o directory).
func ReadLexTables(dir string) (*LexTables, error) {
	b, err := os.ReadFile(filepath.Join(dir, "lexer", "transitiontable.go"))
	if err != nil {
		return nil, err
	}
	t := &LexTables{}
	lines := strings.Split(string(b), "\n")
	inTab := false
	cur := -1
	for i := 0; i < len(lines); i++ {
		ln := strings.TrimSpace(lines[i])
		if strings.HasPrefix(ln, "var TransTab = TransitionTable{") {
			inTab = true
			continue
		}
		if !inTab {
			continue
		}
		if m := reState.FindStringSubmatch(ln); m != nil {
			if atoi(m[1]) != len(t.States) {
				return nil, fmt.Errorf("transitiontable.go: state %s out of order", m[1])
			}
			t.States = append(t.States, LexState{})
			cur = len(t.States) - 1
			continue
		}
		if cur < 0 {
			continue
		}
		next := func() (int, error) {
			if i+1 >= len(lines) {
				return 0, fmt.Errorf("transitiontable.go: truncated")
			}
			m := reReturn.FindStringSubmatch(strings.TrimSpace(lines[i+1]))
			if m == nil {
				return 0, fmt.Errorf("transitiontable.go: line %d: expected return, got %q", i+2, lines[i+1])
			}
			i++
			if m[1] == "NoState" {
				return -1, nil
			}
			return atoi(m[1]), nil
		}
		switch {
		case reCaseEq.MatchString(ln):
			m := reCaseEq.FindStringSubmatch(ln)
			n, err := next()
			if err != nil {
				return nil, err
			}
			v, ok := goRune(m[1])
			if !ok {
				return nil, fmt.Errorf("transitiontable.go: line %d: cannot evaluate %s", i+1, m[1])
			}
			t.States[cur].Cases = append(t.States[cur].Cases, LexCase{v, v, n})
		case reCaseRng.MatchString(ln):
			m := reCaseRng.FindStringSubmatch(ln)
			n, err := next()
			if err != nil {
				return nil, err
			}
			lo, ok1 := goRune(m[1])
			hi, ok2 := goRune(m[2])
			if !ok1 || !ok2 {
				return nil, fmt.Errorf("transitiontable.go: line %d: cannot evaluate %s or %s", i+1, m[1], m[2])
			}
			t.States[cur].Cases = append(t.States[cur].Cases, LexCase{lo, hi, n})
		case strings.HasPrefix(ln, "case "):
			t.States[cur].Other = append(t.States[cur].Other, ln)
		case ln == "default:":
			n, err := next()
			if err != nil {
				return nil, err
			}
			t.States[cur].HasDefault, t.States[cur].Default = true, n
		}
	}
	b, err = os.ReadFile(filepath.Join(dir, "lexer", "acttab.go"))
	if err != nil {
		return nil, err
	}
	lines = strings.Split(string(b), "\n")
	for i := 0; i < len(lines); i++ {
		ln := strings.TrimSpace(lines[i])
		if strings.HasPrefix(ln, "ActionRow{ // S") {
			if i+2 >= len(lines) {
				return nil, fmt.Errorf("acttab.go: truncated")
			}
			a := strings.TrimSpace(lines[i+1])
			g := strings.TrimSpace(lines[i+2])
			if !strings.HasPrefix(a, "Accept: ") || !strings.HasPrefix(g, "Ignore: \"") || !strings.HasSuffix(g, "\",") {
				return nil, fmt.Errorf("acttab.go: unexpected row at line %d", i+1)
			}
			ig, err := strconv.Unquote(strings.TrimSuffix(strings.TrimPrefix(g, "Ignore: "), ","))
			if err != nil {
				return nil, fmt.Errorf("acttab.go: line %d: %v", i+3, err)
			}
			t.Acts = append(t.Acts, LexAct{atoi(strings.TrimSuffix(strings.TrimPrefix(a, "Accept: "), ",")), ig})
			i += 2
		}
	}
	if len(t.Acts) != len(t.States) {
		return nil, fmt.Errorf("lexer tables: %d transition functions but %d action rows", len(t.States), len(t.Acts))
	}
	return t, nil
}

// TokenMap is what was read back from token/token.go.
type TokenMap struct {
	TypeMap []string
	IdKeys  []string // Go-unquoted keys of idMap, in file order ("" + IdBad when the literal does not unquote)
	IdVals  []int
	IdBad   []string // raw literals that are not valid Go string literals
	Empty   bool     // the file is empty (format.Source failed in the generator)
}

var reIdEntry = regexp.MustCompile(`^(".*"):\s*(-?\d+),$`)

func ReadTokenMap(dir string) (*TokenMap, error) {
	b, err := os.ReadFile(filepath.Join(dir, "token", "token.go"))
	if err != nil {
		return nil, err
	}
	tm := &TokenMap{}
	if len(bytes.TrimSpace(b)) == 0 {
		tm.Empty = true
		return tm, nil
	}
	lines := strings.Split(string(b), "\n")
	mode := 0
	for _, l := range lines {
		ln := strings.TrimSpace(l)
		switch {
		case strings.HasPrefix(ln, "typeMap: []string{"):
			mode = 1
		case strings.HasPrefix(ln, "idMap: map[string]Type{"):
			mode = 2
		case ln == "}," || ln == "}":
			mode = 0
		case mode == 1 && ln != "":
			s, err := strconv.Unquote(strings.TrimSuffix(ln, ","))
			if err != nil {
				return nil, fmt.Errorf("token.go: typeMap entry %q: %v", ln, err)
			}
			tm.TypeMap = append(tm.TypeMap, s)
		case mode == 2 && ln != "":
			m := reIdEntry.FindStringSubmatch(ln)
			if m == nil {
				tm.IdBad = append(tm.IdBad, ln)
				continue
			}
			k, err := strconv.Unquote(m[1])
			if err != nil {
				tm.IdBad = append(tm.IdBad, ln)
				continue
			}
			tm.IdKeys = append(tm.IdKeys, k)
			tm.IdVals = append(tm.IdVals, atoi(m[2]))
		}
	}
	return tm, nil
}

// Action kinds of the parser table.
const (
	ActNil = iota
	ActShift
	ActReduce
	ActAccept
)

type PAct struct {
	Kind int
	N    int
}

func (a PAct) String() string {
	switch a.Kind {
	case ActShift:
		return fmt.Sprintf("shift(%d)", a.N)
	case ActReduce:
		return fmt.Sprintf("reduce(%d)", a.N)
	case ActAccept:
		return "accept"
	}
	return "nil"
}

type PProd struct {
	Id         string
	NTType     int
	NumSymbols int
	String     string
}

// ParserTables is what was read back from the parser package.
type ParserTables struct {
	NumProductions, NumStates, NumSymbols, NumNT int
	CanRecover                                   []bool
	Actions                                      [][]PAct // per state, one per terminal column
	Goto                                         [][]int  // per state per NT
	Prods                                        []PProd
	Zip                                          bool
}

var reConst = regexp.MustCompile(`^(numProductions|numStates|numSymbols)\s*=\s*(\d+)$`)
var reAct = regexp.MustCompile(`^(nil|shift\((-?\d+)\)|reduce\((-?\d+)\)|accept\(true\)),`)

func ReadParserTables(dir string) (*ParserTables, error) {
	p := &ParserTables{}
	b, err := os.ReadFile(filepath.Join(dir, "parser", "parser.go"))
	if err != nil {
		return nil, err
	}
	for _, l := range strings.Split(string(b), "\n") {
		if m := reConst.FindStringSubmatch(strings.TrimSpace(l)); m != nil {
			switch m[1] {
			case "numProductions":
				p.NumProductions = atoi(m[2])
			case "numStates":
				p.NumStates = atoi(m[2])
			case "numSymbols":
				p.NumSymbols = atoi(m[2])
			}
		}
	}
	b, err = os.ReadFile(filepath.Join(dir, "parser", "actiontable.go"))
	if err != nil {
		return nil, err
	}
	if bytes.Contains(b, []byte("compress/gzip")) {
		p.Zip = true
		if err := p.readZipAction(b); err != nil {
			return nil, err
		}
	} else {
		for _, l := range strings.Split(string(b), "\n") {
			ln := strings.TrimSpace(l)
			switch {
			case strings.HasPrefix(ln, "actionRow{ // S"):
				p.Actions = append(p.Actions, nil)
				p.CanRecover = append(p.CanRecover, false)
			case strings.HasPrefix(ln, "canRecover: ") && len(p.Actions) > 0:
				p.CanRecover[len(p.CanRecover)-1] = strings.HasPrefix(ln, "canRecover: true")
			default:
				if m := reAct.FindStringSubmatch(ln); m != nil && len(p.Actions) > 0 {
					var a PAct
					switch {
					case m[1] == "nil":
					case strings.HasPrefix(m[1], "shift"):
						a = PAct{ActShift, atoi(m[2])}
					case strings.HasPrefix(m[1], "reduce"):
						a = PAct{ActReduce, atoi(m[3])}
					default:
						a = PAct{ActAccept, 0}
					}
					p.Actions[len(p.Actions)-1] = append(p.Actions[len(p.Actions)-1], a)
				}
			}
		}
	}
	b, err = os.ReadFile(filepath.Join(dir, "parser", "gototable.go"))
	if err != nil {
		return nil, err
	}
	if m := regexp.MustCompile(`const numNTSymbols = (\d+)`).FindSubmatch(b); m != nil {
		p.NumNT = atoi(string(m[1]))
	}
	if bytes.Contains(b, []byte("compress/gzip")) {
		data, err := byteLiteral(b)
		if err != nil {
			return nil, err
		}
		var rows [][]int
		if err := gunzipGob(data, &rows); err != nil {
			return nil, fmt.Errorf("gototable.go: %v", err)
		}
		p.Goto = rows
	} else {
		reG := regexp.MustCompile(`^(-?\d+),`)
		for _, l := range strings.Split(string(b), "\n") {
			ln := strings.TrimSpace(l)
			if strings.HasPrefix(ln, "gotoRow{ // S") {
				p.Goto = append(p.Goto, nil)
			} else if m := reG.FindStringSubmatch(ln); m != nil && len(p.Goto) > 0 {
				p.Goto[len(p.Goto)-1] = append(p.Goto[len(p.Goto)-1], atoi(m[1]))
			}
		}
	}
	b, err = os.ReadFile(filepath.Join(dir, "parser", "productionstable.go"))
	if err != nil {
		return nil, err
	}
	in := false
	seen := map[string]bool{}
	for _, l := range strings.Split(string(b), "\n") {
		ln := strings.TrimSpace(l)
		if ln == "ProdTabEntry{" {
			p.Prods = append(p.Prods, PProd{})
			in = true
			seen = map[string]bool{}
			continue
		}
		if !in {
			continue
		}
		cur := &p.Prods[len(p.Prods)-1]
		for _, f := range []string{"String:", "Id:", "NTType:", "NumSymbols:", "ReduceFunc:"} {
			if strings.HasPrefix(ln, f) && !seen[f] {
				seen[f] = true
				v := strings.TrimSuffix(strings.TrimSpace(strings.TrimPrefix(ln, f)), ",")
				switch f {
				case "String:":
					cur.String = strings.Trim(v, "`")
				case "Id:":
					cur.Id, _ = strconv.Unquote(v)
				case "NTType:":
					cur.NTType = atoi(v)
				case "NumSymbols:":
					cur.NumSymbols = atoi(v)
				case "ReduceFunc:":
					in = false
				}
			}
		}
	}
	if len(p.Actions) != p.NumStates || len(p.Goto) != p.NumStates || len(p.Prods) != p.NumProductions {
		return nil, fmt.Errorf("parser tables: %d action rows, %d goto rows, %d productions for numStates=%d numProductions=%d",
			len(p.Actions), len(p.Goto), len(p.Prods), p.NumStates, p.NumProductions)
	}
	return p, nil
}

func byteLiteral(src []byte) ([]byte, error) {
	i := bytes.Index(src, []byte("data := []byte{"))
	if i < 0 {
		return nil, fmt.Errorf("no byte literal")
	}
	rest := src[i+len("data := []byte{"):]
	j := bytes.IndexByte(rest, '}')
	if j < 0 {
		return nil, fmt.Errorf("unterminated byte literal")
	}
	var out []byte
	for _, f := range strings.FieldsFunc(string(rest[:j]), func(r rune) bool { return r == ',' || r == ' ' || r == '\n' || r == '\t' }) {
		v, err := strconv.ParseUint(f, 0, 8)
		if err != nil {
			return nil, err
		}
		out = append(out, byte(v))
	}
	return out, nil
}

func gunzipGob(data []byte, v any) error {
	z, err := gzip.NewReader(bytes.NewReader(data))
	if err != nil {
		return err
	}
	return gob.NewDecoder(z).Decode(v)
}

func (p *ParserTables) readZipAction(src []byte) error {
	data, err := byteLiteral(src)
	if err != nil {
		return fmt.Errorf("actiontable.go: %v", err)
	}
	var tab []struct {
		CanRecover bool
		Actions    []struct{ Index, Action, Amount int }
	}
	if err := gunzipGob(data, &tab); err != nil {
		return fmt.Errorf("actiontable.go: %v", err)
	}
	for _, row := range tab {
		acts := make([]PAct, p.NumSymbols)
		for _, a := range row.Actions {
			if a.Index < 0 || a.Index >= len(acts) {
				return fmt.Errorf("actiontable.go: column %d out of range", a.Index)
			}
			switch a.Action {
			case 0:
				acts[a.Index] = PAct{ActAccept, 0}
			case 1:
				acts[a.Index] = PAct{ActReduce, a.Amount}
			case 2:
				acts[a.Index] = PAct{ActShift, a.Amount}
			}
		}
		p.Actions = append(p.Actions, acts)
		p.CanRecover = append(p.CanRecover, row.CanRecover)
	}
	return nil
}
