package gen

import (
	"encoding/json"
	"fmt"
	"os"
	"path/filepath"
	"strings"

	"verif/ev"
	"verif/mo"
)

// MOInfo describes the map-order-instrumented build.
type MOInfo struct {
	Batch string   `json:"batch"`
	Sites []string `json:"sites"`
	Other []string `json:"other"`
}

// BuildMO builds (once per tree state) the in-process binary in which every range over a map goes through
// internal/verifmo (supplied by overlay). Returns the binary and the instrumented sites.
func (t *Tools) BuildMO() *MOInfo {
	info := &MOInfo{Batch: filepath.Join(t.Dir, "gocc-batch-mo")}
	stamp := filepath.Join(t.Dir, "mo.json")
	withLock(filepath.Join(BuildDir(), "build.lock"), func() {
		if b, err := os.ReadFile(stamp); err == nil && json.Unmarshal(b, info) == nil {
			if _, err := os.Stat(info.Batch); err == nil {
				return
			}
		}
		for _, e := range GoEnv() {
			if i := strings.IndexByte(e, '='); i > 0 {
				os.Setenv(e[:i], e[i+1:])
			}
		}
		res, err := mo.Rewrite(Repo, "github.com/goccmack/gocc")
		if err != nil {
			fmt.Fprintln(os.Stderr, "BUILD-ERROR: map-order rewriter:", err)
			os.Exit(2)
		}
		modir := filepath.Join(t.Dir, "mo")
		os.RemoveAll(modir)
		os.MkdirAll(modir, 0o777)
		repl := map[string]string{}
		n := 0
		for orig, src := range res.Files {
			if orig == filepath.Join(Repo, "main.go") {
				x, err := TransformMain(src)
				if err != nil {
					fmt.Fprintln(os.Stderr, "BUILD-ERROR:", err)
					os.Exit(2)
				}
				src = x
			}
			f := filepath.Join(modir, fmt.Sprintf("f%d.go", n))
			n++
			os.WriteFile(f, src, 0o666)
			repl[orig] = f
		}
		if _, ok := repl[filepath.Join(Repo, "main.go")]; !ok {
			repl[filepath.Join(Repo, "main.go")] = filepath.Join(t.Dir, "main_xform.go")
		}
		vf := filepath.Join(modir, "verifmo.go")
		os.WriteFile(vf, []byte(mo.VerifmoSrc), 0o666)
		repl[filepath.Join(Repo, "internal", "verifmo", "verifmo.go")] = vf
		ents, _ := os.ReadDir(filepath.Join(ev.Root, "inproc"))
		for _, e := range ents {
			if strings.HasSuffix(e.Name(), ".go") {
				repl[filepath.Join(Repo, "zz_verif_"+e.Name())] = filepath.Join(ev.Root, "inproc", e.Name())
			}
		}
		ov, _ := json.Marshal(map[string]any{"Replace": repl})
		ovf := filepath.Join(modir, "overlay.json")
		os.WriteFile(ovf, ov, 0o666)
		run(Repo, "go", "build", "-tags", "verif", "-modfile="+filepath.Join(t.Dir, "batch.mod"), "-overlay", ovf, "-o", info.Batch+".tmp", ".")
		os.Rename(info.Batch+".tmp", info.Batch)
		info.Sites, info.Other = res.Sites, res.Other
		b, _ := json.Marshal(info)
		os.WriteFile(stamp, b, 0o666)
	})
	return info
}

// NewPoolFor returns a pool running the given batch binary.
func (t *Tools) NewPoolFor(batch string, n int) *Pool {
	p := t.NewPool(n)
	p.batch = batch
	return p
}
