package gen

import (
	"bufio"
	"bytes"
	"encoding/json"
	"fmt"
	"os"
	"os/exec"
	"path/filepath"
	"runtime"
	"sort"
	"strings"
	"sync"
	"sync/atomic"
	"syscall"
	"time"
)

// Job is one run of the generator: working directory and command-line arguments.
type Job struct {
	Dir  string
	Args []string
	Env  map[string]string // extra environment for this run (in-process: set for the duration of the job)
}

// Result is what a run of the generator did, as seen from outside.
type Result struct {
	Exit    int
	Stdout  string
	Stderr  string
	Hang    bool // did not terminate within the horizon (killed)
	ViaCLI  bool // obtained from the real CLI binary
	Elapsed time.Duration
}

// Horizon is the watchdog: a normal run takes 1-30 ms.
var Horizon = 20 * time.Second

// MemLimitKB is the ulimit -v given to generator processes.
var MemLimitKB = 6 * 1024 * 1024

// RunCLI runs the real gocc binary in dir under the watchdog.
func (t *Tools) RunCLI(dir string, args ...string) Result {
	return runProcConfirm(dir, t.Gocc, args...)
}

var confirmedHangs atomic.Int32

// runProcConfirm: a run that exceeds the horizon is run once more under a horizon twelve times as long before it is
// called a hang - on a machine busy with other work a large grammar can need more than the horizon without hanging
// (no verdict may rest on a short wall-clock deadline). After three confirmed hangs the second run is dropped
// (a generator that really hangs on many grammars would otherwise cost four minutes for each of them).
func runProcConfirm(dir string, bin string, args ...string) Result {
	res := runProc(dir, Horizon, bin, args...)
	if res.Hang && confirmedHangs.Load() < 3 {
		again := runProc(dir, 12*Horizon, bin, args...)
		if !again.Hang {
			return again
		}
		confirmedHangs.Add(1)
	}
	return res
}

// RunCLIEnv is RunCLI with extra environment variables.
func (t *Tools) RunCLIEnv(dir string, env map[string]string, args ...string) Result {
	for k, v := range env {
		os.Setenv(k, v)
		defer os.Unsetenv(k)
	}
	return runProcConfirm(dir, t.Gocc, args...)
}

func runProc(dir string, horizon time.Duration, bin string, args ...string) Result {
	sh := fmt.Sprintf("ulimit -v %d; exec \"$0\" \"$@\"", MemLimitKB)
	cmd := exec.Command("/bin/sh", append([]string{"-c", sh, bin}, args...)...)
	cmd.Dir = dir
	cmd.Env = append(os.Environ(), "GOMAXPROCS=2")
	var so, se bytes.Buffer
	cmd.Stdout, cmd.Stderr = &so, &se
	cmd.SysProcAttr = &syscall.SysProcAttr{Setpgid: true}
	start := time.Now()
	if err := cmd.Start(); err != nil {
		fmt.Fprintf(os.Stderr, "HARNESS-INCONSISTENT: cannot start %s: %v\n", bin, err)
		os.Exit(3)
	}
	done := make(chan error, 1)
	go func() { done <- cmd.Wait() }()
	var res Result
	res.ViaCLI = true
	select {
	case err := <-done:
		if err != nil {
			if ee, ok := err.(*exec.ExitError); ok {
				res.Exit = ee.ExitCode()
				if res.Exit < 0 {
					res.Exit = 128
				}
			} else {
				res.Exit = 127
			}
		}
	case <-time.After(horizon):
		syscall.Kill(-cmd.Process.Pid, syscall.SIGKILL)
		<-done
		res.Hang = true
		res.Exit = -1
	}
	res.Elapsed = time.Since(start)
	res.Stdout, res.Stderr = clip(so.String()), clip(se.String())
	if res.Exit == 127 || res.Exit == 126 {
		if _, err := os.Stat(bin); err != nil {
			fmt.Fprintf(os.Stderr, "HARNESS-INCONSISTENT: the generator binary %s disappeared while the check was running\n", bin)
			os.Exit(3)
		}
	}
	return res
}

func clip(s string) string {
	if len(s) > 1<<16 {
		return s[:1<<16]
	}
	return s
}

// Pool runs jobs through in-process batch workers (one sub-process each, because the generator uses the
// process working directory). A worker that dies or exceeds the horizon is killed, the job is re-run
// alone through the real CLI, and the worker is restarted.
type Pool struct {
	t       *Tools
	batch   string // binary to run ("" = t.Batch)
	workers chan *worker
	n       int
	// counters
	Jobs, CLIFallbacks, Hangs, CrossChecked atomic.Int64
	// CrossEvery: every k-th job is also run through the real CLI and compared (0 = never).
	CrossEvery int64
	mu         sync.Mutex
	Mismatch   []string
}

type worker struct {
	cmd *exec.Cmd
	in  *bufio.Writer
	out *bufio.Reader
	seq int
}

func (t *Tools) NewPool(n int) *Pool {
	if n <= 0 {
		n = runtime.NumCPU()
	}
	p := &Pool{t: t, workers: make(chan *worker, n), n: n, CrossEvery: 0}
	for i := 0; i < n; i++ {
		p.workers <- nil // started lazily
	}
	return p
}

func (p *Pool) start() *worker {
	sh := fmt.Sprintf("ulimit -v %d; exec \"$0\" serve", MemLimitKB)
	bin := p.t.Batch
	if p.batch != "" {
		bin = p.batch
	}
	cmd := exec.Command("/bin/sh", "-c", sh, bin)
	cmd.Env = append(os.Environ(), "GOMAXPROCS=2")
	cmd.SysProcAttr = &syscall.SysProcAttr{Setpgid: true}
	in, _ := cmd.StdinPipe()
	out, _ := cmd.StdoutPipe()
	cmd.Stderr = nil
	if err := cmd.Start(); err != nil {
		return nil
	}
	return &worker{cmd: cmd, in: bufio.NewWriter(in), out: bufio.NewReaderSize(out, 1<<20)}
}

func (w *worker) kill() {
	if w != nil && w.cmd.Process != nil {
		syscall.Kill(-w.cmd.Process.Pid, syscall.SIGKILL)
		w.cmd.Wait()
	}
}

// Close stops all workers.
func (p *Pool) Close() {
	for i := 0; i < p.n; i++ {
		w := <-p.workers
		w.kill()
	}
}

// Run executes one job. Safe for concurrent use (blocks while all workers are busy).
func (p *Pool) Run(j Job) Result {
	if os.Getenv("VERIF_CLI_ONLY") != "" && p.batch == "" {
		// fall-back mode: one real CLI process per run (the in-process server was found to disagree with the CLI,
		// i.e. the generator keeps state between runs inside one process)
		p.Jobs.Add(1)
		env := os.Environ()
		_ = env
		start := time.Now()
		res := p.t.RunCLIEnv(j.Dir, j.Env, j.Args...)
		if res.Hang {
			p.Hangs.Add(1)
		}
		res.Elapsed = time.Since(start)
		return res
	}
	w := <-p.workers
	if w == nil {
		w = p.start()
	}
	n := p.Jobs.Add(1)
	var res Result
	ok := false
	start := time.Now()
	if w != nil {
		w.seq++
		b, _ := json.Marshal(map[string]any{"id": w.seq, "dir": j.Dir, "args": j.Args, "env": j.Env})
		w.in.Write(b)
		w.in.WriteByte('\n')
		if err := w.in.Flush(); err == nil {
			type rd struct {
				line []byte
				err  error
			}
			ch := make(chan rd, 1)
			go func() {
				l, e := w.out.ReadBytes('\n')
				ch <- rd{l, e}
			}()
			select {
			case r := <-ch:
				var jr struct {
					ID     int
					Exit   int
					Stdout []byte
					Stderr []byte
					Panic  string
				}
				if r.err == nil && json.Unmarshal(r.line, &jr) == nil && jr.ID == w.seq {
					res = Result{Exit: jr.Exit, Stdout: string(jr.Stdout), Stderr: string(jr.Stderr)}
					ok = true
				}
			case <-time.After(Horizon):
			}
		}
	}
	if !ok {
		// worker died, hung or is out of step: restart it and obtain the verdict from the real CLI
		w.kill()
		w = nil
		p.CLIFallbacks.Add(1)
		cleanOutputs(j)
		res = p.t.RunCLI(j.Dir, j.Args...)
		if res.Hang {
			p.Hangs.Add(1)
		}
	} else if p.CrossEvery > 0 && n%p.CrossEvery == 0 {
		p.cross(j, res)
	}
	res.Elapsed = time.Since(start)
	p.workers <- w
	return res
}

// cleanOutputs removes what a half-finished job may have written (only the -o directory of the job).
func cleanOutputs(j Job) {
	for i, a := range j.Args {
		if a == "-o" && i+1 < len(j.Args) {
			d := j.Args[i+1]
			if !filepath.IsAbs(d) {
				d = filepath.Join(j.Dir, d)
			}
			if strings.HasPrefix(d, j.Dir) && d != j.Dir {
				os.RemoveAll(d)
			}
		}
	}
}

// cross re-runs a job with the real CLI in a sibling directory of the same name and compares everything.
func (p *Pool) cross(j Job, got Result) {
	p.CrossChecked.Add(1)
	base := filepath.Base(j.Dir)
	alt := filepath.Join(filepath.Dir(j.Dir), ".cross-"+base, base)
	os.RemoveAll(filepath.Dir(alt))
	defer os.RemoveAll(filepath.Dir(alt))
	if err := copyInputs(j.Dir, alt); err != nil {
		return
	}
	// the module root must be in the same relative position: copy go.mod one level up if the job dir has none
	if _, err := os.Stat(filepath.Join(j.Dir, "go.mod")); err != nil {
		if b, err := os.ReadFile(filepath.Join(filepath.Dir(j.Dir), "go.mod")); err == nil {
			os.WriteFile(filepath.Join(filepath.Dir(alt), "go.mod"), b, 0o666)
		}
	}
	// an absolute path inside the job directory (e.g. -o $PWD/sub) is re-based onto the sibling directory
	args := make([]string, len(j.Args))
	for i, a := range j.Args {
		args[i] = strings.ReplaceAll(a, j.Dir, alt)
	}
	want := p.t.RunCLI(alt, args...)
	want.Stdout = strings.ReplaceAll(want.Stdout, alt, "<DIR>")
	got.Stdout = strings.ReplaceAll(got.Stdout, j.Dir, "<DIR>")
	msg := ""
	if want.Exit != got.Exit || NormStdout(want.Stdout) != NormStdout(got.Stdout) {
		msg = fmt.Sprintf("exit/stdout differ: cli=%d %q batch=%d %q", want.Exit, want.Stdout, got.Exit, got.Stdout)
	} else if d := DiffTrees(alt, j.Dir); d != "" {
		msg = "files differ: " + d
	}
	if msg != "" {
		p.mu.Lock()
		p.Mismatch = append(p.Mismatch, fmt.Sprintf("%s %v: %s", j.Dir, j.Args, msg))
		p.mu.Unlock()
	}
}

func copyInputs(from, to string) error {
	os.MkdirAll(to, 0o777)
	ents, err := os.ReadDir(from)
	if err != nil {
		return err
	}
	for _, e := range ents {
		if e.IsDir() {
			continue
		}
		b, err := os.ReadFile(filepath.Join(from, e.Name()))
		if err != nil {
			return err
		}
		os.WriteFile(filepath.Join(to, e.Name()), b, 0o666)
	}
	return nil
}

// ReadTree returns relative path -> content of all regular files below dir (hidden files skipped).
func ReadTree(dir string) map[string][]byte {
	m := map[string][]byte{}
	filepath.Walk(dir, func(p string, info os.FileInfo, err error) error {
		if err != nil || info.IsDir() {
			return nil
		}
		rel, _ := filepath.Rel(dir, p)
		if strings.HasPrefix(filepath.Base(rel), ".") {
			return nil
		}
		b, _ := os.ReadFile(p)
		m[rel] = b
		return nil
	})
	return m
}

// DiffTrees compares generated sub-directories of two job directories; "" if identical.
func DiffTrees(a, b string) string {
	ta, tb := ReadTree(a), ReadTree(b)
	for k, v := range ta {
		w, ok := tb[k]
		if !ok {
			return "missing in second: " + k
		}
		// the *.txt diagnostics of -v list map contents in iteration order (no property constrains them)
		if !bytes.Equal(v, w) && !strings.HasSuffix(k, ".txt") {
			return "content differs: " + k
		}
	}
	for k := range tb {
		if _, ok := ta[k]; !ok {
			return "missing in first: " + k
		}
	}
	return ""
}

// Scratch creates a private scratch root on tmpfs (removed by the returned function).
func Scratch(tag string) (string, func()) {
	base := "/dev/shm"
	if st, err := os.Stat(base); err != nil || !st.IsDir() {
		base = filepath.Join(BuildDir(), "scratch")
		os.MkdirAll(base, 0o777)
	}
	d, err := os.MkdirTemp(base, "verif-"+tag+"-")
	if err != nil {
		fmt.Fprintln(os.Stderr, "scratch:", err)
		os.Exit(3)
	}
	return d, func() { os.RemoveAll(d) }
}

// ParallelFor runs f(i) for i in [0,n) on all cores.
func ParallelFor(n, workers int, f func(i int)) {
	if workers <= 0 {
		workers = runtime.NumCPU()
	}
	var next atomic.Int64
	var wg sync.WaitGroup
	for w := 0; w < workers; w++ {
		wg.Add(1)
		go func() {
			defer wg.Done()
			for {
				i := int(next.Add(1) - 1)
				if i >= n {
					return
				}
				f(i)
			}
		}()
	}
	wg.Wait()
}

// NormStdout removes the one run-to-run variation of gocc's messages that no property constrains: the front end lists
// the expected tokens of a syntax error in map-iteration order. The list is sorted.
func NormStdout(s string) string {
	const key = "expected one of: "
	lines := strings.Split(s, "\n")
	for i, l := range lines {
		if k := strings.Index(l, key); k >= 0 {
			f := strings.Fields(l[k+len(key):])
			sort.Strings(f)
			lines[i] = l[:k+len(key)] + strings.Join(f, " ")
		}
	}
	return strings.Join(lines, "\n")
}
