package gen

import "testing"

func TestGoRune(t *testing.T) {
	for s, want := range map[string]rune{"65": 65, "-1": -1, "0x41": 65, "'a'": 'a', `'\''`: '\'', `'\\'`: '\\', `'é'`: 0xe9, `'\U0010ffff'`: 0x10ffff, `'\x00'`: 0, `'�'`: 0xfffd} {
		if g, ok := goRune(s); !ok || g != want {
			t.Errorf("%s: %v %v", s, g, ok)
		}
		if !reCaseEq.MatchString("case r == " + s + ":") {
			t.Errorf("reCaseEq does not match %s", s)
		}
		if m := reCaseRng.FindStringSubmatch("case " + s + " <= r && r <= " + s + ":"); m == nil || m[1] != s || m[2] != s {
			t.Errorf("reCaseRng %s: %v", s, m)
		}
	}
}
