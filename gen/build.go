// Package gen builds gocc from /repo's current working tree (the real CLI binary and an in-process
// "batch" binary assembled through go build -overlay), runs generator jobs and reads emitted tables back.
package gen

import (
	"bytes"
	"crypto/sha256"
	"encoding/hex"
	"encoding/json"
	"fmt"
	"go/ast"
	"go/format"
	"go/parser"
	"go/token"
	"io/fs"
	"os"
	"os/exec"
	"path/filepath"
	"sort"
	"strings"
	"syscall"
	"time"

	"verif/ev"
)

var Repo = func() string {
	if r := os.Getenv("VERIF_REPO"); r != "" {
		return r
	}
	return "/repo"
}()

// BuildDir is where persistent build products live (git-ignored).
func BuildDir() string { return filepath.Join(ev.Root, ".build") }

// GoEnv returns the environment for every go command: offline, module mode, private build cache.
func GoEnv() []string {
	env := []string{}
	for _, e := range os.Environ() {
		if strings.HasPrefix(e, "GOFLAGS=") || strings.HasPrefix(e, "GOPROXY=") || strings.HasPrefix(e, "GOTOOLCHAIN=") ||
			strings.HasPrefix(e, "GOSUMDB=") || strings.HasPrefix(e, "GOCACHE=") || strings.HasPrefix(e, "GONOSUMDB=") ||
			strings.HasPrefix(e, "GONOSUMCHECK=") || strings.HasPrefix(e, "GOFLAGS=") || strings.HasPrefix(e, "GOWORK=") {
			continue
		}
		env = append(env, e)
	}
	return append(env, "GOFLAGS=-mod=mod", "GOPROXY=off", "GOWORK=off", "GOCACHE="+filepath.Join(BuildDir(), "gocache"))
}

// TreeHash hashes the generator sources of the working tree (not HEAD).
func TreeHash() string {
	h := sha256.New()
	var files []string
	for _, f := range []string{"main.go", "go.mod", "go.sum", "spec/gocc2.ebnf"} {
		files = append(files, filepath.Join(Repo, f))
	}
	filepath.WalkDir(filepath.Join(Repo, "internal"), func(p string, d fs.DirEntry, err error) error {
		if err == nil && !d.IsDir() && strings.HasSuffix(p, ".go") && !strings.HasSuffix(p, "_test.go") {
			files = append(files, p)
		}
		return nil
	})
	sort.Strings(files)
	for _, f := range files {
		b, err := os.ReadFile(f)
		if err != nil {
			continue
		}
		fmt.Fprintf(h, "%s %d\n", f, len(b))
		h.Write(b)
	}
	return hex.EncodeToString(h.Sum(nil))[:16]
}

// Tools are the binaries built from the current tree.
type Tools struct {
	Hash  string
	Dir   string
	Gocc  string // the real CLI
	Batch string // in-process harness + job server (overlay build)
}

func withLock(path string, f func()) {
	os.MkdirAll(filepath.Dir(path), 0o777)
	lf, err := os.OpenFile(path, os.O_CREATE|os.O_RDWR, 0o666)
	if err != nil {
		f()
		return
	}
	defer lf.Close()
	syscall.Flock(int(lf.Fd()), syscall.LOCK_EX)
	defer syscall.Flock(int(lf.Fd()), syscall.LOCK_UN)
	f()
}

// WithLock runs f holding an exclusive file lock.
func WithLock(path string, f func()) { withLock(path, f) }

// Build (re)builds both binaries for the current working tree if they are not cached.
// A tree that does not compile ends the check with exit 2 (outside the contract; no VIOLATION line).
func Build() *Tools {
	h := TreeHash()
	dir := filepath.Join(BuildDir(), "tree-"+h)
	t := &Tools{Hash: h, Dir: dir, Gocc: filepath.Join(dir, "gocc"), Batch: filepath.Join(dir, "gocc-batch")}
	withLock(filepath.Join(BuildDir(), "build.lock"), func() {
		os.MkdirAll(dir, 0o777)
		now := time.Now()
		os.Chtimes(dir, now, now)
		pruneOld(h)
		pruneCache()
		if _, err := os.Stat(t.Gocc); err != nil {
			run(Repo, "go", "build", "-tags", "verif", "-o", t.Gocc+".tmp", ".")
			os.Rename(t.Gocc+".tmp", t.Gocc)
		}
		ih := inprocHash()
		stamp := filepath.Join(dir, "batch.stamp")
		if b, err := os.ReadFile(stamp); err != nil || string(b) != ih {
			buildBatch(t)
			os.WriteFile(stamp, []byte(ih), 0o666)
		}
	})
	return t
}

func inprocHash() string {
	h := sha256.New()
	for _, d := range []string{"inproc", "gram", "ref"} {
		ents, _ := os.ReadDir(filepath.Join(ev.Root, d))
		for _, e := range ents {
			if strings.HasSuffix(e.Name(), ".go") {
				b, _ := os.ReadFile(filepath.Join(ev.Root, d, e.Name()))
				fmt.Fprintf(h, "%s/%s %d\n", d, e.Name(), len(b))
				h.Write(b)
			}
		}
	}
	return hex.EncodeToString(h.Sum(nil))
}

func pruneOld(keep string) {
	ents, _ := os.ReadDir(BuildDir())
	type de struct {
		name string
		mod  int64
	}
	var trees []de
	for _, e := range ents {
		if strings.HasPrefix(e.Name(), "tree-") && e.Name() != "tree-"+keep {
			if i, err := e.Info(); err == nil {
				trees = append(trees, de{e.Name(), i.ModTime().UnixNano()})
			}
		}
	}
	sort.Slice(trees, func(i, j int) bool { return trees[i].mod > trees[j].mod })
	for i, t := range trees {
		// keep the eight most recent generations, and never remove one touched in the last three hours (another
		// check may still be running against that tree)
		if i >= 8 && time.Since(time.Unix(0, t.mod)) > 3*time.Hour {
			os.RemoveAll(filepath.Join(BuildDir(), t.name))
		}
	}
}

func run(dir string, name string, args ...string) {
	cmd := exec.Command(name, args...)
	cmd.Dir = dir
	cmd.Env = GoEnv()
	var out bytes.Buffer
	cmd.Stdout, cmd.Stderr = &out, &out
	if err := cmd.Run(); err != nil {
		fmt.Fprintf(os.Stderr, "BUILD-ERROR: %s %s in %s: %v\n%s\n", name, strings.Join(args, " "), dir, err, out.String())
		os.Exit(2)
	}
}

// buildBatch assembles the in-process binary: /repo's own main package with main() renamed and
// os.Exit turned into a panic, plus the files of /verif/inproc, all through -overlay (nothing is
// written to /repo); -modfile lets it import the verif module.
func buildBatch(t *Tools) {
	src, err := os.ReadFile(filepath.Join(Repo, "main.go"))
	if err != nil {
		fmt.Fprintln(os.Stderr, "BUILD-ERROR:", err)
		os.Exit(2)
	}
	x, err := TransformMain(src)
	if err != nil {
		fmt.Fprintln(os.Stderr, "BUILD-ERROR: transforming main.go:", err)
		os.Exit(2)
	}
	xf := filepath.Join(t.Dir, "main_xform.go")
	os.WriteFile(xf, x, 0o666)
	repl := map[string]string{filepath.Join(Repo, "main.go"): xf}
	ents, _ := os.ReadDir(filepath.Join(ev.Root, "inproc"))
	for _, e := range ents {
		if strings.HasSuffix(e.Name(), ".go") {
			repl[filepath.Join(Repo, "zz_verif_"+e.Name())] = filepath.Join(ev.Root, "inproc", e.Name())
		}
	}
	ov, _ := json.Marshal(map[string]any{"Replace": repl})
	ovf := filepath.Join(t.Dir, "overlay.json")
	os.WriteFile(ovf, ov, 0o666)
	mod, _ := os.ReadFile(filepath.Join(Repo, "go.mod"))
	mod = append(mod, []byte("\nrequire verif v0.0.0\nreplace verif => "+ev.Root+"\n")...)
	mf := filepath.Join(t.Dir, "batch.mod")
	os.WriteFile(mf, mod, 0o666)
	sum, _ := os.ReadFile(filepath.Join(Repo, "go.sum"))
	os.WriteFile(filepath.Join(t.Dir, "batch.sum"), sum, 0o666)
	run(Repo, "go", "build", "-tags", "verif", "-modfile="+mf, "-overlay", ovf, "-o", t.Batch+".tmp", ".")
	os.Rename(t.Batch+".tmp", t.Batch)
}

// TransformMain renames func main to goccMain and turns os.Exit(n) into panic(verifExit(n)).
func TransformMain(src []byte) ([]byte, error) {
	fset := token.NewFileSet()
	f, err := parser.ParseFile(fset, "main.go", src, parser.ParseComments)
	if err != nil {
		return nil, err
	}
	found := false
	for _, d := range f.Decls {
		if fd, ok := d.(*ast.FuncDecl); ok && fd.Recv == nil && fd.Name.Name == "main" {
			fd.Name.Name = "goccMain"
			found = true
		}
	}
	if !found {
		return nil, fmt.Errorf("no func main")
	}
	ast.Inspect(f, func(n ast.Node) bool {
		if c, ok := n.(*ast.CallExpr); ok {
			if s, ok := c.Fun.(*ast.SelectorExpr); ok {
				if id, ok := s.X.(*ast.Ident); ok && id.Name == "os" && s.Sel.Name == "Exit" && len(c.Args) == 1 {
					c.Fun = ast.NewIdent("panic")
					c.Args = []ast.Expr{&ast.CallExpr{Fun: ast.NewIdent("verifExit"), Args: c.Args}}
				}
			}
		}
		return true
	})
	// keep "os" imported even if Exit was its only use
	var buf bytes.Buffer
	if err := format.Node(&buf, fset, f); err != nil {
		return nil, err
	}
	buf.WriteString("\nvar _ = os.Getpid\n")
	return buf.Bytes(), nil
}

// pruneCache empties the private Go build cache when it exceeds 8 GB (disk space is limited).
func pruneCache() {
	var total int64
	filepath.WalkDir(filepath.Join(BuildDir(), "gocache"), func(p string, d fs.DirEntry, err error) error {
		if err == nil && !d.IsDir() {
			if i, e := d.Info(); e == nil {
				total += i.Size()
			}
		}
		return nil
	})
	if total > 8<<30 {
		// only entries that no build has touched for three hours (the go command refreshes the time stamp of an
		// entry it uses at most once per hour): other checks may be compiling right now
		cutoff := time.Now().Add(-3 * time.Hour)
		filepath.WalkDir(filepath.Join(BuildDir(), "gocache"), func(p string, d fs.DirEntry, err error) error {
			if err == nil && !d.IsDir() {
				if i, e := d.Info(); e == nil && i.ModTime().Before(cutoff) {
					os.Remove(p)
				}
			}
			return nil
		})
	}
}

// ToolchainTrouble recognises compiler output that is about the build environment, not about the code being built
// (a build cache entry that vanished, a full disk, a killed compiler): never a verdict about generated code.
func ToolchainTrouble(out string) bool {
	for _, s := range []string{"/gocache/", "could not import", "no space left on device", "cannot allocate memory", "signal: killed", "out of memory", "too many open files", "input/output error"} {
		if strings.Contains(out, s) {
			if s == "could not import" && !strings.Contains(out, "no such file or directory") && !strings.Contains(out, "gocache") {
				continue
			}
			return true
		}
	}
	return false
}
