package main

import (
	"bytes"
	"encoding/json"
	"fmt"
	"os"
	"os/exec"
	"path/filepath"

	"verif/ev"
	"verif/gen"
)

type c20out struct {
	RuneLits      int                                     `json:"rune_literals"`
	ByKind        map[string]int                          `json:"by_kind"`
	DistinctRunes int                                     `json:"distinct_code_points"`
	IntLits       int                                     `json:"int_literals"`
	IntOK         int                                     `json:"int_literals_valid"`
	IntErr        int                                     `json:"int_literals_rejected"`
	Violations    []struct{ Kind, Lit, Want, Got string } `json:"violations"`
	NViol         int                                     `json:"n_violations"`
	Samples       []string                                `json:"samples"`
}

const c20Main = `//go:build verif

package main

import (
	"encoding/json"
	"fmt"

	"vt/c20/o/util"
)

func main() {
	out := c20run(util.RuneValue, util.IntValue, util.UintValue)
	b, _ := json.Marshal(out)
	fmt.Println(string(b))
}
`

// buildEmittedUtil runs the real CLI on a tiny grammar and compiles the emitted util package together with
// the C20 core into a scratch program; returns the binary path.
func buildEmittedUtil(t *gen.Tools, root string) (string, error) {
	os.WriteFile(filepath.Join(root, "go.mod"), []byte("module vt\n\ngo 1.24\n"), 0o666)
	d := filepath.Join(root, "c20")
	os.MkdirAll(filepath.Join(d, "drv"), 0o777)
	os.WriteFile(filepath.Join(d, "g.bnf"), []byte("t : 'a' ;\nS : t ;\n"), 0o666)
	res := t.RunCLI(d, "-o", "o", "g.bnf")
	if res.Exit != 0 || res.Hang {
		return "", fmt.Errorf("gocc failed on the trivial grammar: exit %d %s %s", res.Exit, res.Stdout, res.Stderr)
	}
	core, err := os.ReadFile(filepath.Join(ev.Root, "inproc", "c20core.go"))
	if err != nil {
		return "", err
	}
	os.WriteFile(filepath.Join(d, "drv", "core.go"), core, 0o666)
	os.WriteFile(filepath.Join(d, "drv", "main.go"), []byte(c20Main), 0o666)
	bin := filepath.Join(d, "c20drv")
	cmd := exec.Command("go", "build", "-trimpath", "-tags", "verif", "-o", bin, "./c20/drv")
	cmd.Dir = root
	cmd.Env = gen.GoEnv()
	if out, err := cmd.CombinedOutput(); err != nil {
		return "", fmt.Errorf("emitted util does not compile: %v\n%s", err, out)
	}
	return bin, nil
}

func init() {
	checks["C20"] = func(tier string) int {
		t := gen.Build()
		r := ev.NewRun("C20", tier, "exploration")
		root, cleanup := gen.Scratch("c20")
		defer cleanup()
		total := 0
		use := func(subject string, raw []byte) {
			var o c20out
			if err := json.Unmarshal(raw, &o); err != nil {
				ev.Inconsistent("c20 %s output: %v", subject, err)
			}
			total += o.RuneLits + 2*o.IntLits
			r.Set(subject+"_rune_literals", o.RuneLits)
			r.Set(subject+"_by_kind", o.ByKind)
			r.Set(subject+"_decimal_literals", o.IntLits)
			r.Set("distinct_code_points", o.DistinctRunes)
			for k, n := range o.ByKind {
				for i := 0; i < n && i < 3; i++ {
					r.Distinct(fmt.Sprint(subject, k, i))
				}
			}
			for _, s := range o.Samples {
				r.Sample(subject + ": " + s)
			}
			for _, v := range o.Violations {
				r.Violate("c20", subject+" "+v.Kind+" "+v.Lit, fmt.Sprintf("%s(%q): Go says %s, got %s", subject, v.Lit, v.Want, v.Got),
					map[string]any{"subject": subject, "kind": v.Kind, "lit": v.Lit, "want": v.Want, "got": v.Got})
			}
		}
		out, err := runBatch(t, "c20")
		if err != nil {
			ev.Inconsistent("c20 in-process explorer failed: %v", err)
		}
		use("generator_LitToRune", out)
		bin, err := buildEmittedUtil(t, root)
		if err != nil {
			r.Violate("c20", "emitted-util-build", err.Error(), map[string]any{"subject": "emitted", "error": err.Error()})
		} else {
			var ob, eb bytes.Buffer
			cmd := exec.Command(bin)
			cmd.Stdout, cmd.Stderr = &ob, &eb
			if err := cmd.Run(); err != nil {
				ev.Inconsistent("c20 emitted driver failed: %v %s", err, eb.String())
			}
			use("emitted_RuneValue", ob.Bytes())
		}
		c20EndToEnd(t, r, root, tier)
		r.Add("evaluations", int64(total))
		r.Set("rule", "complete enumeration: every Unicode scalar value spelled raw (where Go allows), \\U, \\u, \\x, octal (both hex cases) and the nine named escapes, each compared with strconv.UnquoteChar, for the generator's LitToRune (in-process) and the emitted util.RuneValue (compiled from a real gocc run); all strings of <=4 characters over [0-9+-] plus int64/uint64 boundary neighbourhoods against strconv ; end-to-end: one grammar per representative literal (every escape kind x UTF-8 length boundaries) through the real generator, the emitted start-state test must be r == the code point Go assigns; distinct = (subject, spelling kind) classes, up to 3 per class, plus end-to-end literals")
		r.Assumption("emitted util/litconv.go does not depend on the grammar (asserted by C09/C12 corpora hashing it)")
		return r.Finish(nil)
	}
	replays["c20"] = func(rp *ev.Replay) int {
		fmt.Printf("C20 replay: subject=%v literal=%q want=%v recorded=%v\n", rp.Case["subject"], rp.Case["lit"], rp.Case["want"], rp.Case["got"])
		fmt.Println("re-running the complete enumeration (10 s)")
		return checks["C20"]("quick")
	}
}
