package main

import (
	"fmt"
	"os"
	"path/filepath"
	"strings"
	"sync"

	"verif/corp"
	"verif/ev"
	"verif/gen"
	"verif/gram"
)

var presFlags = []string{"-zip", "-debug_lexer", "-debug_parser", "-v", "-no_lexer"}

// fileDependsOn: the one flag each emitted .go file may depend on ("" = none).
func fileDependsOn(rel string) string {
	switch rel {
	case "lexer/lexer.go":
		return "-debug_lexer"
	case "parser/parser.go":
		return "-debug_parser"
	case "parser/actiontable.go", "parser/gototable.go":
		return "-zip"
	}
	return ""
}

func c12Grammars(sw *sweeper, tier string) []*gram.Grammar {
	var gs []*gram.Grammar
	budget := 5
	if tier == "thorough" {
		budget = 40
	}
	for _, rec := range selectSyn(conflictFreeRecs(sw, "quick"), func(rec *synRec) *GenOut { return rec.Plain }, budget) {
		gs = append(gs, rec.G)
	}
	for i, g := range errFamily("quick") {
		if i < 3 || (tier == "thorough" && i < len(gram.ErrSeeds())) {
			gs = append(gs, g)
		}
	}
	gs = append(gs, gram.Mk("E: E plus E | E times E | a"))
	// error in the look-ahead of a reduction, no recoverable state below (the expected-token list names it)
	gs = append(gs, gram.Mk("S: A B ; A: a ; B: b | error c"))
	// tokens declared in the lexical part but used by no syntax rule, ignored tokens, a regular definition
	u := gram.Mk("S: a S b | c")
	u.Lex = append(u.Lex, gram.LexDef{Name: "unused", Kind: "tok", P: gram.Seq(gram.Lit('u'), gram.Rep(gram.Ref("_d")))},
		gram.LexDef{Name: "_d", Kind: "reg", P: gram.Rng('0', '9')}, gram.LexDef{Name: "!ws", Kind: "ign", P: gram.AltP(gram.Lit(' '), gram.Lit('\n'))},
		gram.LexDef{Name: "zlast", Kind: "tok", P: gram.Lit('z')})
	gs = append(gs, u)
	// identifiers of arbitrary length (long lexemes through lexer + parser)
	id := gram.Mk("S: id S | id eq id")
	id.Lex = []gram.LexDef{{Name: "id", Kind: "tok", P: gram.Seq(gram.Rng('a', 'c'), gram.Rep(gram.Rng('a', 'c')))}, {Name: "eq", Kind: "tok", P: gram.Lit('=')}, {Name: "!ws", Kind: "ign", P: gram.Lit(' ')}}
	gs = append(gs, id)
	// more than 255 terminals and more than 255 productions (numbers that no longer fit one byte in an encoded table)
	gs = append(gs, gram.S6()[0])
	return gs
}

func init() {
	checks["C12"] = func(tier string) int {
		t := gen.Build()
		r := ev.NewRun("C12", tier, "exploration")
		sw, done := newSweeper(t, "c12")
		defer done()
		gs := c12Grammars(sw, tier)
		// (i) every valid subset of the five flags through the generator: each emitted file depends only on "its" flag
		var mu sync.Mutex
		suspicious := map[int][][]string{}
		for gi, g0 := range gs {
			g := gram.WithRecActions(g0)
			g.Header = `import "verif/rt"`
			text := g.Text()
			type run struct {
				flags []string
				files map[string][]byte
				exit  int
			}
			var subsets [][]string
			for m := 0; m < 1<<len(presFlags); m++ {
				var f []string
				for i, n := range presFlags {
					if m&(1<<i) != 0 {
						f = append(f, n)
					}
				}
				if contains(f, "-no_lexer") && contains(f, "-debug_lexer") {
					continue
				}
				subsets = append(subsets, f)
			}
			runs := make([]run, len(subsets))
			texts := make([]string, len(subsets))
			for i := range texts {
				texts[i] = text
			}
			gen.ParallelFor(len(subsets), 0, func(i int) {
				sw.mu.Lock()
				k := sw.n
				sw.n++
				sw.mu.Unlock()
				jroot := filepath.Join(sw.root, fmt.Sprintf("r%d", k))
				dir := filepath.Join(jroot, "w")
				os.MkdirAll(dir, 0o777)
				os.WriteFile(filepath.Join(jroot, "go.mod"), []byte("module vt\n\ngo 1.24\n"), 0o666)
				os.WriteFile(filepath.Join(dir, "g.bnf"), []byte(text), 0o666)
				args := append(append([]string{"-a"}, subsets[i]...), "-o", "o", "g.bnf")
				res := sw.pool.Run(gen.Job{Dir: dir, Args: args})
				runs[i] = run{subsets[i], gen.ReadTree(filepath.Join(dir, "o")), res.Exit}
				os.RemoveAll(jroot)
			})
			single := map[string]run{"": runs[0]}
			for _, ru := range runs {
				if len(ru.flags) == 1 {
					single[ru.flags[0]] = ru
				}
			}
			for _, ru := range runs {
				mu.Lock()
				r.Add("evaluations", 1)
				r.Add("flag_subsets_generated", 1)
				key := oneLine(text) + " " + strings.Join(ru.flags, " ")
				if ru.exit != runs[0].exit {
					r.Violate("c12", key, fmt.Sprintf("flags %v: exit status %d, without flags %d\n  grammar: %s", ru.flags, ru.exit, runs[0].exit, oneLine(text)), map[string]any{"grammar": text, "flags": ru.flags})
					mu.Unlock()
					continue
				}
				for rel, want0 := range runs[0].files {
					if !strings.HasSuffix(rel, ".go") {
						continue
					}
					if strings.HasPrefix(rel, "lexer/") && contains(ru.flags, "-no_lexer") {
						if _, ok := ru.files[rel]; ok {
							r.Violate("c12", key+rel, fmt.Sprintf("flags %v: %s written although -no_lexer", ru.flags, rel), map[string]any{"grammar": text, "flags": ru.flags})
						}
						continue
					}
					want := want0
					if dep := fileDependsOn(rel); dep != "" && contains(ru.flags, dep) {
						want = single[dep].files[rel]
					}
					if got, ok := ru.files[rel]; !ok {
						r.Violate("c12", key+rel, fmt.Sprintf("flags %v: %s is not written\n  grammar: %s", ru.flags, rel, oneLine(text)), map[string]any{"grammar": text, "flags": ru.flags, "file": rel})
					} else if string(got) != string(want) {
						// a file that depends on a flag other than "its own" is only SUSPICIOUS (the file layout is not
						// part of the property): that flag subset is compiled in part (ii) and judged by its behaviour
						r.Add("files_with_unexpected_flag_dependence", 1)
						suspicious[gi] = append(suspicious[gi], ru.flags)
					}
					r.Add("files_compared", 1)
				}
				for rel := range ru.files {
					if strings.HasSuffix(rel, ".go") {
						if _, ok := runs[0].files[rel]; !ok {
							r.Violate("c12", key+rel, fmt.Sprintf("flags %v: extra file %s", ru.flags, rel), map[string]any{"grammar": text, "flags": ru.flags, "file": rel})
						}
					}
				}
				r.Distinct(key)
				mu.Unlock()
			}
		}
		sw.checkCross()
		// (ii) the flag variants compiled: decoded tables and behaviour on all inputs against the plain build
		var items []*corp.Item
		variants := [][]string{nil, {"-zip"}, {"-debug_lexer"}, {"-debug_parser"}, {"-zip", "-debug_lexer", "-debug_parser"}, {"-no_lexer", "-zip"}}
		for gi, g0 := range gs {
			vs := append([][]string{}, variants...)
			seenV := map[string]bool{}
			for _, v := range vs {
				seenV[strings.Join(v, " ")] = true
			}
			for _, f := range suspicious[gi] {
				if k := strings.Join(f, " "); !seenV[k] && len(vs) < len(variants)+6 && !(contains(f, "-no_lexer") && false) {
					seenV[k] = true
					vs = append(vs, f)
				}
			}
			for vi, v := range vs {
				it := corp.NewItem(fmt.Sprintf("F%d", vi), gram.WithRecActions(g0), append([]string{"-a"}, v...)...)
				it.RtImp = true
				name := "plain"
				if vi > 0 {
					name = strings.Join(v, " ")
				}
				it.Extra = map[string]any{"group": fmt.Sprint("grp", gi), "variant": name}
				if len(g0.Lex) > 0 && g0.Lex[0].Name == "id" {
					rep := func(n int) string { return strings.Repeat("ab", n/2) + strings.Repeat("c", n%2) }
					it.Extra["sources"] = []string{"a", rep(31), rep(32), rep(33) + " bb", rep(34) + "=bb cc", rep(40) + " b", "a " + rep(35) + " " + rep(36) + "=c", rep(33) + "?", rep(64) + " " + rep(65)}
				}
				items = append(items, it)
			}
		}
		c, err := corp.Build(t, sw.pool, "c12b", items)
		defer c.Close()
		if err != nil {
			ev.Inconsistent("layer-B corpus: %v", err)
		}
		for _, it := range c.Items {
			if !it.GenOK && !skipNotCompiling(it) {
				ev.Inconsistent("generation failed (exit %d): %s\n%s", it.Exit, it.Stdout, it.Text)
			}
		}
		n := 4
		if tier == "thorough" {
			n = 6
		}
		driverLoop(c, r, "C12", "flags", "flags", n, nil, "sequences")
		r.Add("evaluations", r.Get("inputs"))
		r.Set("grammars", len(gs))
		r.Set("rule", "(i) per grammar all 24 valid subsets of {-zip,-debug_lexer,-debug_parser,-v,-no_lexer} through the generator: same exit status, same file set (-no_lexer only removes lexer/); an emitted .go file that is NOT byte-identical to what its own flag alone produces (lexer.go <- -debug_lexer, parser.go <- -debug_parser, action/goto tables <- -zip, everything else <- nothing) makes that flag subset suspicious and it is compiled in (ii); (ii) the variants plain, -zip, -debug_lexer, -debug_parser, all three, -no_lexer -zip and every suspicious subset compiled: tables after init() equal cell by cell, every token sequence up to the bound through Parse (errors, recovery, action calls) and every byte string up to length 3 through Scan give identical observations; for a grammar with identifiers of arbitrary length, sources with lexemes of 31-65 bytes through lexer+parser (identical results, and the caller's source buffer untouched); distinct = (grammar, flag subset) and (variant, observation)")
		return r.Finish(nil)
	}
}
