package main

import (
	"fmt"
	"strings"

	"verif/ev"
	"verif/gen"
	"verif/mc"
	"verif/ref"
)

func init() {
	checks["C04"] = func(tier string) int {
		t := gen.Build()
		r := ev.NewRun("C04", tier, "model_checking")
		sw, done := newSweeper(t, "c04")
		defer done()
		fams, all := synFamilies(tier)
		// declaration order matters for nothing here, but conflicting seeds get their permutations as extra inputs
		recs := synSweep(sw, fams, all)
		for i, rec := range recs {
			r.Add("grammars", 1)
			r.Add("evaluations", 2)
			r.Add("states", int64(len(rec.LR.States)))
			for _, tr := range rec.LR.Trans {
				r.Add("transitions", int64(len(tr)))
			}
			class := "lr1"
			if len(rec.Confl) > 0 {
				class = "conflicting"
			}
			if rec.AccConfl {
				class = "accept-conflict"
			}
			r.Add("class_"+class, 1)
			r.Distinct(fmt.Sprintf("%s/%d/%d/%s", class, len(rec.LR.States), len(rec.Confl), rec.G.ID()))
			bad := func(what string) {
				r.Violate("c04", rec.Text+"|"+what, what+"\n  grammar: "+oneLine(rec.Text), map[string]any{
					"grammar": rec.Text, "reference_conflict_states": rec.Confl, "accept_conflict": rec.AccConfl,
					"plain_exit": rec.Plain.Res.Exit, "plain_stdout": rec.Plain.Res.Stdout, "auto_exit": rec.Auto.Res.Exit, "auto_stdout": rec.Auto.Res.Stdout})
			}
			p, a := rec.Plain, rec.Auto
			if p.Res.Hang || a.Res.Hang {
				bad("gocc did not terminate")
				continue
			}
			// a disagreement between gocc and the reference is confirmed on the grammar itself before it is reported
			switch {
			case len(rec.Confl) == 0:
				if rec.PlainConf >= 0 || rec.AutoConf >= 0 {
					if confirmLR1(rec) {
						bad(fmt.Sprintf("grammar is LR(1) (canonical automaton has no conflict and its parser agrees with Earley) but gocc announces %d conflicts", max(rec.PlainConf, rec.AutoConf)))
					}
				} else if p.Res.Exit != 0 || a.Res.Exit != 0 {
					bad(fmt.Sprintf("conflict-free grammar but exit status %d (plain) / %d (-a): %s", p.Res.Exit, a.Res.Exit, p.Res.Stdout+p.Res.Stderr))
				}
			default:
				// reading: an accept/reduce conflict is "announced" by the refusal message (gocc aborts with
				// "Cannot have LR1 conflict with Accept" before it can print the count line)
				announced := func(o *GenOut, n int) bool {
					return n >= 0 || (rec.AccConfl && o.Res.Exit != 0 && strings.Contains(strings.ToLower(o.Res.Stdout+o.Res.Stderr), "conflict"))
				}
				if !announced(p, rec.PlainConf) || !announced(a, rec.AutoConf) {
					if w := confirmConflict(rec); w != "" {
						bad("grammar is not LR(1) (" + w + ") but gocc announces no conflict")
					}
					continue
				}
				if p.Res.Exit == 0 {
					bad("conflicts announced without -a but exit status 0")
				}
				if rec.AccConfl {
					if a.Res.Exit == 0 {
						bad("accept/reduce conflict (start symbol derives itself) accepted with -a: exit status 0")
					}
				} else {
					if a.Res.Exit != 0 {
						bad(fmt.Sprintf("-a did not complete: exit status %d %s", a.Res.Exit, a.Res.Stdout+a.Res.Stderr))
					}
					if rec.PlainConf != len(rec.Confl) || rec.AutoConf != len(rec.Confl) {
						// the count is "conflict count" of C11; the statement of C04 only fixes iff. Recorded, not a violation.
						r.Add("count_differs_from_reference_states", 1)
					}
				}
			}
			if i%900 == 5 {
				r.Sample(map[string]any{"grammar": oneLine(rec.Text), "class": class, "lr1_states": len(rec.LR.States), "conflict_states": len(rec.Confl),
					"gocc_plain": fmt.Sprintf("exit %d %q", p.Res.Exit, oneLine(p.Res.Stdout)), "gocc_auto": fmt.Sprintf("exit %d %q", a.Res.Exit, oneLine(a.Res.Stdout))})
			}
		}
		r.Set("traces_validated_against_impl", sw.pool.Jobs.Load())
		r.Set("cli_cross_checked", sw.pool.CrossChecked.Load())
		r.Set("rule", "every grammar of S1 (all sets of <=3 (thorough: 4) alternatives over {S,A}x{empty,1-2 symbols of S,A,a,b}) and the S2 seeds, through the real generator without and with -a; oracle: canonical LR(1) built independently (states/transitions counted are the reference automaton's); distinct = (class, automaton size, grammar) triples")
		r.Assumption("reference canonical LR(1) is validated against Earley on every conflict-free grammar by C02's language check")
		return r.Finish(nil)
	}
}

// confirmLR1: the reference's conflict-free table accepts exactly the Earley language up to the bound.
func confirmLR1(rec *synRec) bool {
	terms := inputTerms(rec.C)
	bad, _ := languageCheck(rec.C, rec.LR, terms, seqBound("quick", len(terms)), func(int, int) {})
	return bad == ""
}

// confirmConflict exhibits why the grammar is not LR(1): the competing actions of one reference cell.
func confirmConflict(rec *synRec) string {
	for _, s := range rec.Confl {
		for t, as := range rec.LR.Actions[s] {
			if len(as) > 1 {
				return fmt.Sprintf("state %d on %s: %v", s, t, as)
			}
		}
	}
	return ""
}

var _ = mc.ProdCheck
var _ ref.Act
