package main

import (
	"bytes"
	"fmt"
	"os"
	"os/exec"
	"path/filepath"
	"regexp"
	"sort"
	"strings"
	"sync"
	"time"

	"verif/ev"
	"verif/gen"
	"verif/gram"
)

type c09job struct {
	Name      string
	Text      string
	Flags     []string // without -o/-p and the file name
	OutForm   string   // "sub", "deep", "abs", "p"
	HasSyntax int      // 1 yes, 0 no, -1 unknown
	Compile   bool     // emitted code is required to compile (header and actions untouched valid Go)
}

func (j *c09job) noLexer() bool { return contains(j.Flags, "-no_lexer") }

func contains(a []string, s string) bool {
	for _, x := range a {
		if x == s {
			return true
		}
	}
	return false
}

// args returns the command line and the directory (relative to the job dir) where the packages must appear.
func (j *c09job) args(jobDir, pkgBase string) ([]string, string) {
	a := append([]string{}, j.Flags...)
	switch j.OutForm {
	case "deep":
		return append(a, "-o", "sub/deeper", "g.bnf"), "sub/deeper"
	case "abs":
		return append(a, "-o", filepath.Join(jobDir, "sub"), "g.bnf"), "sub"
	case "p":
		return append(a, "-p", pkgBase, "g.bnf"), "."
	// spellings of the same directories that are not in canonical form
	case "sub/":
		return append(a, "-o", "sub/", "g.bnf"), "sub"
	case "./sub":
		return append(a, "-o", "./sub", "g.bnf"), "sub"
	case "sub/./deeper":
		return append(a, "-o", "sub/./deeper", "g.bnf"), "sub/deeper"
	case "sub//deeper/":
		return append(a, "-o", "sub//deeper/", "g.bnf"), "sub/deeper"
	case "abs/":
		return append(a, "-o", filepath.Join(jobDir, "sub")+"/", "g.bnf"), "sub"
	case "abs/./":
		return append(a, "-o", jobDir+"/./sub", "g.bnf"), "sub"
	case "abs//":
		return append(a, "-o", jobDir+"//sub//", "g.bnf"), "sub"
	case "p/":
		return append(a, "-p", pkgBase+"/", "g.bnf"), "."
	case "o+p":
		return append(a, "-o", "sub", "-p", pkgBase+"/sub", "g.bnf"), "sub"
	case "o/+p/":
		return append(a, "-o", "sub/", "-p", pkgBase+"/sub/", "g.bnf"), "sub"
	}
	return append(a, "-o", "sub", "g.bnf"), "sub"
}

func hasSyntaxPart(text string) int {
	toks, err := gram.Lexemes(text)
	if err != nil {
		return -1
	}
	for i, t := range toks {
		if t.Kind == "prodId" && i+1 < len(toks) && toks[i+1].Kind == ":" {
			return 1
		}
	}
	return 0
}

// fileSetProblem checks that every package the configuration calls for is present (a directory with at least one
// .go file) and that no emitted .go file is empty. File names inside a package are not prescribed.
func fileSetProblem(dir string, j *c09job) string {
	want := []string{"token", "util"}
	if !j.noLexer() {
		want = append(want, "lexer")
	}
	switch j.HasSyntax {
	case 1:
		want = append(want, "parser", "errors")
	case -1:
		_, e1 := os.Stat(filepath.Join(dir, "parser"))
		_, e2 := os.Stat(filepath.Join(dir, "errors"))
		if (e1 == nil) != (e2 == nil) {
			return "only one of the parser and errors packages was written"
		}
		if e1 == nil {
			want = append(want, "parser", "errors")
		}
	}
	for _, pkg := range want {
		ents, err := os.ReadDir(filepath.Join(dir, pkg))
		if err != nil {
			return "package " + pkg + " is missing"
		}
		n := 0
		for _, e := range ents {
			if !strings.HasSuffix(e.Name(), ".go") {
				continue
			}
			n++
			b, _ := os.ReadFile(filepath.Join(dir, pkg, e.Name()))
			if len(bytes.TrimSpace(b)) == 0 {
				return pkg + "/" + e.Name() + " is empty"
			}
		}
		if n == 0 {
			return "package " + pkg + " has no Go file"
		}
	}
	if j.noLexer() {
		if _, err := os.Stat(filepath.Join(dir, "lexer")); err == nil {
			return "lexer package written although -no_lexer was given"
		}
	}
	return ""
}

var flagNames = []string{"-a", "-zip", "-no_lexer", "-debug_lexer", "-debug_parser", "-v"}

func flagSubsets(all bool) [][]string {
	var out [][]string
	for m := 0; m < 1<<len(flagNames); m++ {
		var f []string
		for i, n := range flagNames {
			if m&(1<<i) != 0 {
				f = append(f, n)
			}
		}
		if !all {
			// the 8 file-affecting combinations of -zip, -no_lexer|-debug_lexer, -debug_parser (always with -a)
			if !contains(f, "-a") || contains(f, "-v") {
				continue
			}
		}
		out = append(out, f)
	}
	return out
}

func c09Jobs(tier string) []c09job {
	var jobs []c09job
	// (1) all pattern shapes (termination of the lexer generator)
	for _, g := range gram.L1(tier == "thorough") {
		jobs = append(jobs, c09job{Name: "L1", Text: g.Text(), OutForm: "sub", HasSyntax: 0})
	}
	// (1b) long and deeply nested shapes
	for _, sd := range gram.StressSeeds() {
		jobs = append(jobs, c09job{Name: "stress-" + sd.Name, Text: sd.Text, Flags: []string{"-a"}, OutForm: "sub", HasSyntax: hasSyntaxPart(sd.Text), Compile: true})
	}
	// (2) seeds x flag subsets x output forms
	forms := []string{"sub", "deep", "abs", "p"}
	for si, s := range gram.Seeds() {
		hs := hasSyntaxPart(s.Text)
		for fi, f := range flagSubsets(si < 3) {
			for oi, form := range forms {
				if si >= 3 && (fi+oi)%4 != 0 {
					continue
				}
				jobs = append(jobs, c09job{Name: "seed-" + s.Name, Text: s.Text, Flags: f, OutForm: form, HasSyntax: hs, Compile: true})
			}
		}
	}
	// (2b) spellings of the output directory / package that are not in canonical form (trailing slash, ./, //)
	for si, s := range gram.Seeds() {
		if si >= 3 && tier != "thorough" {
			break
		}
		hs := hasSyntaxPart(s.Text)
		for _, form := range []string{"sub/", "./sub", "sub/./deeper", "sub//deeper/", "abs/", "abs/./", "abs//", "p/", "o+p", "o/+p/"} {
			for _, f := range [][]string{{"-a"}, {"-a", "-zip", "-debug_parser"}, {"-a", "-no_lexer"}} {
				jobs = append(jobs, c09job{Name: "seed-" + s.Name, Text: s.Text, Flags: f, OutForm: form, HasSyntax: hs, Compile: true})
			}
		}
	}
	// (3) hostile spellings x the file-affecting flag combinations
	for hi, s := range gram.HostileSeeds() {
		hs := hasSyntaxPart(s.Text)
		for fi, f := range flagSubsets(false) {
			if tier != "thorough" && fi != hi%8 && fi != 0 {
				continue
			}
			jobs = append(jobs, c09job{Name: "hostile-" + s.Name, Text: s.Text, Flags: f, OutForm: forms[(hi+fi)%4], HasSyntax: hs, Compile: true})
		}
	}
	// (3b) byte sweep: every byte value (quick: all control bytes, all ASCII punctuation, DEL and the boundary bytes of
	// UTF-8: continuation, over-long lead, lead bytes of 2/3/4-byte sequences, surrogate lead, beyond U+10FFFF, 0xFF)
	// inside an interpreted string literal terminal, a raw string literal terminal and a character literal. Whatever
	// gocc makes of the file: if it exits 0, what it wrote must compile.
	for b := 0; b < 256; b++ {
		if tier != "thorough" {
			punct := b >= 0x20 && b < 0x7f && !(b >= '0' && b <= '9' || b >= 'a' && b <= 'z' || b >= 'A' && b <= 'Z')
			edge := b < 0x20 || b == 0x7f || b == 0x80 || b == 0xbf || b == 0xc0 || b == 0xc1 || b == 0xc2 || b == 0xdf || b == 0xe0 || b == 0xed || b == 0xef || b == 0xf0 || b == 0xf4 || b == 0xf5 || b == 0xfe || b == 0xff
			if !punct && !edge {
				continue
			}
		}
		c := string([]byte{byte(b)})
		texts := []string{
			"a : 'a' ;\nS : a \"p" + c + "q\" | \"p" + c + "q\" S ;\n",
			"a : 'a' ;\nS : a `p" + c + "q` ;\n",
			"t : 'a' '" + c + "' ;\nu : 'b' ;\n",
		}
		for k, text := range texts {
			jobs = append(jobs, c09job{Name: fmt.Sprintf("byte-%02x-%d", b, k), Text: text, Flags: flagSubsets(false)[(b+k)%8], OutForm: forms[(b+k)%4], HasSyntax: -1, Compile: true})
		}
	}
	// (4) token-level mutants (all classes): termination; well-formed ones with untouched actions must compile
	for _, m := range classifyMutants(tier) {
		j := c09job{Name: "mutant-" + m.Seed + "/" + m.M.Desc, Text: m.Text, Flags: []string{"-a"}, OutForm: "sub", HasSyntax: hasSyntaxPart(m.Text)}
		j.Compile = m.Class == "wellformed" && !m.M.TouchesSDT
		jobs = append(jobs, j)
	}
	// (5) byte-level mutants
	seeds := gram.Seeds()
	nb := 2
	if tier == "thorough" {
		nb = len(seeds)
	}
	for _, s := range seeds[:nb] {
		for i, b := range gram.ByteMutants(s.Text) {
			jobs = append(jobs, c09job{Name: fmt.Sprintf("bytes-%s/%d", s.Name, i), Text: b, Flags: []string{"-a"}, OutForm: "sub", HasSyntax: -1})
		}
	}
	return jobs
}

var reBuildDir = regexp.MustCompile(`(?m)^(?:# vt/|)(c\d+)[/ :]`)

func init() {
	checks["C09"] = func(tier string) int {
		t := gen.Build()
		r := ev.NewRun("C09", tier, "exploration")
		sw, done := newSweeper(t, "c09")
		defer done()
		jobs := c09Jobs(tier)
		var mu sync.Mutex
		type comp struct {
			job *c09job
			key string
		}
		compile := map[string]*c09job{}
		gen.ParallelFor(len(jobs), 0, func(i int) {
			j := &jobs[i]
			sw.mu.Lock()
			k := sw.n
			sw.n++
			sw.mu.Unlock()
			jroot := filepath.Join(sw.root, fmt.Sprintf("r%d", k))
			dir := filepath.Join(jroot, "w")
			os.MkdirAll(dir, 0o777)
			os.WriteFile(filepath.Join(jroot, "go.mod"), []byte("module vt\n\ngo 1.24\n"), 0o666)
			os.WriteFile(filepath.Join(dir, "g.bnf"), []byte(j.Text), 0o666)
			args, outRel := j.args(dir, "vt/w")
			res := sw.pool.Run(gen.Job{Dir: dir, Args: args})
			defer os.RemoveAll(jroot)
			mu.Lock()
			defer mu.Unlock()
			r.Add("evaluations", 1)
			r.Add("runs_"+strings.SplitN(j.Name, "-", 2)[0], 1)
			cs := map[string]any{"name": j.Name, "text": j.Text, "args": args, "stdout": res.Stdout, "stderr": res.Stderr}
			key := j.Name + " " + strings.Join(j.Flags, " ") + " " + j.OutForm
			if res.Hang {
				r.Add("timeouts", 1)
				r.Violate("c09", "hang: "+oneLine(j.Text), fmt.Sprintf("%s %v: gocc does not terminate within %v (a normal run takes 0.03 s); observed in-process and through the real CLI\n  text: %s", j.Name, args, gen.Horizon, oneLine(j.Text)), cs)
				return
			}
			if contains(j.Flags, "-no_lexer") && contains(j.Flags, "-debug_lexer") {
				if res.Exit == 0 {
					r.Violate("c09", key, fmt.Sprintf("%s: -no_lexer together with -debug_lexer must be refused, exit status 0", j.Name), cs)
				}
				r.Add("refused_flag_combination", 1)
				return
			}
			if res.Exit != 0 {
				r.Add("exit_nonzero", 1)
				if j.Compile && (strings.HasPrefix(j.Name, "seed-") || strings.HasPrefix(j.Name, "stress-")) {
					r.Violate("c09", key, fmt.Sprintf("%s %v: well-formed seed refused with exit status %d: %s", j.Name, args, res.Exit, oneLine(res.Stdout+res.Stderr)), cs)
				}
				return
			}
			r.Add("exit_zero", 1)
			if p := fileSetProblem(filepath.Join(dir, outRel), j); p != "" {
				r.Violate("c09", key, fmt.Sprintf("%s %v: exit status 0 but %s\n  text: %s", j.Name, args, p, oneLine(j.Text)), cs)
				return
			}
			r.Distinct(key)
			if j.Compile {
				ck := j.Text + "\x00" + strings.Join(j.Flags, " ") + "\x00" + j.OutForm
				if _, ok := compile[ck]; !ok {
					compile[ck] = j
				}
			}
			if i%2003 == 17 {
				r.Sample(map[string]any{"name": j.Name, "args": args, "text": j.Text, "exit": res.Exit})
			}
		})
		// (6) a second run into a directory that already holds the output of an earlier run (an edited grammar, other
		// flags): what the second run writes must be exactly what it writes into an empty directory, and must compile
		{
			seeds := gram.Seeds()
			type rr struct {
				name          string
				t1, t2        string
				f1, f2        []string
				compileSecond bool
			}
			reruns := []rr{
				{"flags-then-plain", seeds[0].Text, seeds[0].Text, []string{"-a", "-debug_lexer", "-debug_parser", "-v"}, []string{"-a"}, true},
				{"zip-then-plain", seeds[0].Text, seeds[0].Text, []string{"-a", "-zip"}, []string{"-a"}, true},
				{"plain-then-zip", seeds[1].Text, seeds[1].Text, []string{"-a"}, []string{"-a", "-zip"}, true},
				{"big-then-small", seeds[1].Text, seeds[3].Text, []string{"-a"}, []string{"-a"}, true},
				{"small-then-big", seeds[3].Text, seeds[0].Text, []string{"-a"}, []string{"-a"}, true},
				{"syntax-then-lexer-only", seeds[0].Text, seeds[2].Text, []string{"-a"}, []string{"-a"}, false},
			}
			// a grammar whose productions table is well over 4 KB, and the same grammar with one character of a late
			// action changed (same length): the second run must still write what it writes into an empty directory
			{
				mk := func(last string) string {
					t := "a : 'a' ;\nb : 'b' ;\n"
					for i := 0; i < 40; i++ {
						act := fmt.Sprintf("\"p%02d\", nil", i)
						if i == 37 {
							act = last
						}
						t += fmt.Sprintf("N%d : a N%d b << %s >> | b << %s >> ;\n", i, (i+1)%40, act, act)
					}
					return t
				}
				reruns = append(reruns, rr{"same-size-edit-late-in-a-large-file", mk("\"pXa\", nil"), mk("\"pXb\", nil"), []string{"-a"}, []string{"-a"}, true},
					rr{"same-size-edit-late-zip", mk("\"pXa\", nil"), mk("\"pXb\", nil"), []string{"-a", "-zip"}, []string{"-a", "-zip"}, true})
			}
			for ri, x := range reruns {
				mk := func(tag string) (string, string) {
					jroot := filepath.Join(sw.root, fmt.Sprintf("rr%d%s", ri, tag))
					dir := filepath.Join(jroot, "w")
					os.MkdirAll(dir, 0o777)
					os.WriteFile(filepath.Join(jroot, "go.mod"), []byte("module vt\n\ngo 1.24\n"), 0o666)
					return jroot, dir
				}
				jr1, d1 := mk("a")
				jr2, d2 := mk("b")
				os.WriteFile(filepath.Join(d1, "g.bnf"), []byte(x.t1), 0o666)
				r1 := sw.pool.Run(gen.Job{Dir: d1, Args: append(append([]string{}, x.f1...), "-o", "o", "g.bnf")})
				os.WriteFile(filepath.Join(d1, "g.bnf"), []byte(x.t2), 0o666)
				r2 := sw.pool.Run(gen.Job{Dir: d1, Args: append(append([]string{}, x.f2...), "-o", "o", "g.bnf")})
				os.WriteFile(filepath.Join(d2, "g.bnf"), []byte(x.t2), 0o666)
				r3 := sw.pool.Run(gen.Job{Dir: d2, Args: append(append([]string{}, x.f2...), "-o", "o", "g.bnf")})
				r.Add("evaluations", 3)
				r.Add("second_runs_into_a_used_directory", 1)
				if r1.Exit != 0 || r2.Exit != 0 || r3.Exit != 0 || r1.Hang || r2.Hang || r3.Hang {
					if r2.Exit != r3.Exit {
						r.Violate("c09", "rerun "+x.name, fmt.Sprintf("%s: the second run exits %d into a used directory and %d into an empty one", x.name, r2.Exit, r3.Exit), map[string]any{"name": x.name})
					}
					os.RemoveAll(jr1)
					os.RemoveAll(jr2)
					continue
				}
				used, fresh := gen.ReadTree(filepath.Join(d1, "o")), gen.ReadTree(filepath.Join(d2, "o"))
				bad := ""
				for k, v := range fresh {
					if w, ok := used[k]; !ok {
						bad = "the second run did not write " + k
					} else if !bytes.Equal(v, w) && !strings.HasSuffix(k, ".txt") {
						bad = fmt.Sprintf("%s holds %d bytes after the second run, %d bytes when written into an empty directory", k, len(w), len(v))
					}
					if bad != "" {
						break
					}
				}
				if bad != "" {
					r.Violate("c09", "rerun "+x.name, fmt.Sprintf("%s: %v then %v into the same directory, both exit 0: %s", x.name, x.f1, x.f2, bad), map[string]any{"name": x.name, "first": x.t1, "second": x.t2})
				} else {
					r.Distinct("rerun " + x.name)
				}
				os.RemoveAll(jr1)
				os.RemoveAll(jr2)
			}
		}
		sw.checkCross()
		// compile step: distinct (text, flags, form) in one module, one go build
		var cks []string
		for k := range compile {
			cks = append(cks, k)
		}
		sort.Strings(cks)
		budget := 130
		if tier == "thorough" {
			budget = 1500
		}
		// seeds and hostile spellings first, then mutants by a deterministic stride
		var sel []*c09job
		var rest []*c09job
		for _, k := range cks {
			j := compile[k]
			if strings.HasPrefix(j.Name, "mutant-") {
				rest = append(rest, j)
			} else {
				sel = append(sel, j)
			}
		}
		if len(sel) > budget*3/4 {
			stride := len(sel)/(budget*3/4) + 1
			var s2 []*c09job
			for i, j := range sel {
				if i%stride == 0 || strings.HasPrefix(j.Name, "hostile-") && len(j.Flags) == 1 {
					s2 = append(s2, j)
				}
			}
			sel = s2
		}
		if room := budget - len(sel); room > 0 && len(rest) > 0 {
			stride := len(rest)/room + 1
			for i := 0; i < len(rest); i += stride {
				sel = append(sel, rest[i])
			}
		}
		r.Set("compile_candidates", len(cks))
		r.Set("compiled", len(sel))
		croot := filepath.Join(sw.root, "compile")
		os.MkdirAll(croot, 0o777)
		os.WriteFile(filepath.Join(croot, "go.mod"), []byte("module vt\n\ngo 1.24\n"), 0o666)
		dirOf := map[string]*c09job{}
		gen.ParallelFor(len(sel), 0, func(i int) {
			j := sel[i]
			d := fmt.Sprintf("c%d", i)
			dir := filepath.Join(croot, d)
			os.MkdirAll(dir, 0o777)
			os.WriteFile(filepath.Join(dir, "g.bnf"), []byte(j.Text), 0o666)
			args, _ := j.args(dir, "vt/"+d)
			res := sw.pool.Run(gen.Job{Dir: dir, Args: args})
			mu.Lock()
			dirOf[d] = j
			mu.Unlock()
			if res.Exit != 0 {
				ev.Inconsistent("second run of %s %v exits %d", j.Name, args, res.Exit)
			}
			os.Remove(filepath.Join(dir, "g.bnf"))
		})
		tBuild := time.Now()
		cmd := exec.Command("go", "build", "-trimpath", "./...")
		cmd.Dir = croot
		cmd.Env = gen.GoEnv()
		out, err := cmd.CombinedOutput()
		for try := 0; err != nil && gen.ToolchainTrouble(string(out)); try++ {
			// the build environment (a cache entry removed under the compiler, a full disk), not the emitted code
			if try == 3 {
				ev.Inconsistent("go build of the emitted packages fails for reasons of the build environment: %v\n%s", err, out[:min(len(out), 3000)])
			}
			time.Sleep(5 * time.Second)
			cmd = exec.Command("go", "build", "-trimpath", "./...")
			cmd.Dir = croot
			cmd.Env = gen.GoEnv()
			out, err = cmd.CombinedOutput()
		}
		r.Set("compile_wall_s", time.Since(tBuild).Seconds())
		if err != nil {
			failed := map[string]string{}
			for _, m := range reBuildDir.FindAllStringSubmatch(string(out), -1) {
				if _, ok := failed[m[1]]; !ok {
					// first error line mentioning this directory
					for _, l := range strings.Split(string(out), "\n") {
						if strings.Contains(l, m[1]+"/") && !strings.HasPrefix(l, "#") {
							failed[m[1]] = l
							break
						}
					}
				}
			}
			if len(failed) == 0 {
				ev.Inconsistent("go build of the emitted packages failed without attributable errors: %v\n%s", err, out)
			}
			for d, line := range failed {
				j := dirOf[d]
				if j == nil {
					continue
				}
				args, _ := j.args("<dir>", "vt/"+d)
				r.Violate("c09", "compile "+j.Name+" "+strings.Join(j.Flags, " ")+" "+j.OutForm, fmt.Sprintf("%s %v: exit status 0 but the emitted packages do not compile: %s\n  text: %s", j.Name, args, line, oneLine(j.Text)),
					map[string]any{"name": j.Name, "text": j.Text, "args": args, "compiler": line})
			}
		}
		r.Set("cli_cross_checked", sw.pool.CrossChecked.Load())
		r.Set("watchdog_seconds", gen.Horizon.Seconds())
		r.Set("rule", "real generator under a watchdog (20 s against a normal 0.03 s; 6 GB) on: every pattern shape of L1; long and deeply nested stress shapes (20 consecutive nullable multi-alternative groups, nesting depth 15, 60 alternatives, 40-term sequences, 30-symbol bodies, a 12-level nullable chain); seed grammars x all 64 flag subsets (3 seeds; the 8 file-affecting combinations for the others) x four output forms (-o sub, -o sub/deeper, -o $PWD/sub, -p only), and ten spellings of those directories that are not canonical (trailing slash, ./, //, -o together with -p); hostile spellings (names, string literals over all ASCII punctuation, format verbs, template syntax, bytes that are not UTF-8, character literals, action texts, headers); a sweep of byte values (quick: control bytes, punctuation, UTF-8 boundary bytes; thorough: all 256) inside an interpreted string literal, a raw string literal and a character literal; every token-level mutant and every byte-level mutant of seeds. Every run must terminate; exit 0 => every package the configuration calls for is present (token, util; lexer unless -no_lexer, which must then be absent; parser and errors iff there is a syntax part), no emitted Go file empty; a deterministic selection of distinct exit-0 outputs whose header/actions are valid Go is compiled with go build; distinct = exit-0 runs with complete output")
		r.Assumption("non-termination is observed as exceeding the watchdog (600x the normal running time), in-process and again through the real CLI")
		return r.Finish(nil)
	}
}
