package main

import (
	"fmt"
	"strings"

	"verif/ev"
	"verif/gen"
	"verif/mc"
	"verif/ref"
)

// goccConflictFree: gocc itself processed the grammar without reporting conflicts (the quantifier of C02/C06).
func goccConflictFree(rec *synRec) bool {
	return rec.Plain != nil && rec.Plain.Res.Exit == 0 && !rec.Plain.Res.Hang && rec.PlainConf < 0 && rec.Plain.Par != nil && rec.Plain.ReadErr == ""
}

func init() {
	checks["C02"] = func(tier string) int {
		t := gen.Build()
		r := ev.NewRun("C02", tier, "model_checking")
		sw, done := newSweeper(t, "c02")
		defer done()
		fams, all := synFamilies(tier)
		recs := synSweep(sw, fams, all)
		var cands []*synRec
		for i, rec := range recs {
			r.Add("grammars_swept", 1)
			if rec.G.HasError() {
				continue
			}
			if rec.Plain.ReadErr != "" {
				// the reader of the harness does not understand the emitted files: a limitation of the harness (the
				// output format may have changed legitimately); whether the files compile is C09's subject
				ev.Inconsistent("table reader cannot read the emitted parser tables: %s\n%s", rec.Plain.ReadErr, rec.Text)
			}
			if !goccConflictFree(rec) {
				continue
			}
			r.Add("grammars", 1)
			cands = append(cands, rec)
			tab := mc.NewReadTable(rec.Plain.Par, rec.Plain.Tok.TypeMap)
			terms := inputTerms(rec.C)
			n := seqBound(tier, len(terms))
			bad, wit := languageCheck(rec.C, tab, terms, n, func(s, sent int) {
				r.Add("evaluations", int64(s))
				r.Add("sentences", int64(sent))
			})
			if bad != "" {
				r.Violate("c02", rec.Text+"|"+strings.Join(wit, " "), fmt.Sprintf("token sequence [%s]: %s\n  grammar: %s", strings.Join(wit, " "), bad, oneLine(rec.Text)),
					map[string]any{"grammar": rec.Text, "tokens": wit, "level": "read-back tables"})
				continue
			}
			// production coverage: one shortest sentence per production (a grammar with hundreds of terminals gets a
			// small length bound above; its productions are still each exercised once), and each of them cut short
			covered := 0
			for _, sent := range rec.C.CoverSentences() {
				covered++
				r.Add("evaluations", 2)
				if d := ref.Drive(rec.C, tab, sent, false); !d.Accept {
					bad, wit = "parser rejects a sentence (one of the production-covering sentences)", sent
					break
				}
				if len(sent) > 0 && !rec.C.Accepts(sent[:len(sent)-1]) {
					if d := ref.Drive(rec.C, tab, sent[:len(sent)-1], false); d.Accept {
						bad, wit = "parser accepts a sentence cut short by one token", sent[:len(sent)-1]
						break
					}
				}
			}
			r.Add("production_covering_sentences", int64(covered))
			if bad != "" {
				r.Violate("c02", rec.Text+"|"+strings.Join(wit, " "), fmt.Sprintf("token sequence [%s]: %s\n  grammar: %s", strings.Join(wit, " "), bad, oneLine(rec.Text)),
					map[string]any{"grammar": rec.Text, "tokens": wit, "level": "read-back tables"})
				continue
			}
			// product with canonical LR(1): closes => identical machines => all lengths
			if len(rec.Confl) == 0 {
				pr := mc.LRProduct(tab, rec.LR)
				r.Add("states", int64(pr.Pairs))
				r.Add("transitions", int64(pr.Edges))
				if pr.Mismatch != "" {
					// a structural mismatch is only a lead: the language agreed up to the bound
					r.Add("structural_leads_unconfirmed", 1)
					fmt.Printf("NOTE: tables differ structurally from canonical LR(1) but agree with Earley up to length %d: %s\n  %s\n", n, pr.Mismatch, oneLine(rec.Text))
				} else {
					r.Add("products_closed", 1)
					r.Distinct(fmt.Sprintf("%d/%s", pr.Pairs, rec.G.ID()))
				}
			}
			if i%800 == 3 {
				r.Sample(map[string]any{"grammar": oneLine(rec.Text), "lr1_states": len(rec.LR.States), "sequence_bound": n})
			}
		}
		parseLayerB(t, sw, r, "C02", tier, cands)
		r.Set("cli_cross_checked", sw.pool.CrossChecked.Load())
		r.Set("rule", "every grammar of S1/S2 that gocc reports conflict-free: (A) the reference shift/reduce driver over the READ-BACK tables on every token sequence up to the bound against an Earley recogniser, plus the product of the read-back table with an independently built canonical LR(1) automaton explored to closure (identical machines => all lengths); (B) compiled unmodified parsers on every token sequence up to the bound through a scripted Scanner; distinct = grammars whose product closed")
		r.Assumption("Earley recogniser and canonical LR(1) construction are textbook transcriptions; they are cross-validated against each other on every conflict-free grammar")
		return r.Finish(nil)
	}
}

var _ = ref.EOF
