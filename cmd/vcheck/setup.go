package main

import (
	"fmt"

	"verif/gen"
)

func init() {
	checks["setup"] = func(tier string) int {
		t := gen.Build()
		fmt.Println("built", t.Gocc, t.Batch)
		for _, f := range setupHooks {
			f(t)
		}
		return 0
	}
}

var setupHooks []func(t *gen.Tools)
