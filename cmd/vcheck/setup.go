package main

import (
	"fmt"
	"os"
	"os/exec"
	"sort"

	"verif/gen"
)

func init() {
	checks["setup"] = func(tier string) int {
		t := gen.Build()
		fmt.Println("built", t.Gocc, t.Batch)
		for _, f := range setupHooks {
			f(t)
		}
		if tier == "all" {
			// warm the Go build cache (generated corpora compile from cache afterwards): every quick check once
			os.Setenv("VERIF_WARMUP", "1")
			var ids []string
			for id := range checks {
				if id != "setup" {
					ids = append(ids, id)
				}
			}
			sort.Strings(ids)
			for _, id := range ids {
				cmd := exec.Command(os.Args[0], id, "quick")
				cmd.Stdout, cmd.Stderr = os.Stdout, os.Stderr
				cmd.Run()
			}
		}
		return 0
	}
}

var setupHooks []func(t *gen.Tools)
