package main

import (
	"fmt"
	"os"
	"path/filepath"
	"regexp"
	"strings"
	"sync"
	"unicode/utf8"

	"verif/ev"
	"verif/gen"
	"verif/gram"
)

var proseMenu = []struct{ name, text string }{
	{"none", ""},
	{"plain", "Some prose about the grammar.\n"},
	{"heading", "# Heading\n\nText : with ; tokens | that << look >> like 'grammar'.\n"},
	{"inline-code", "Use `x` and\ttabs `y z` here.\n"},
	{"non-ascii", "Grammaire décrite ci-dessous → voilà ✓\n"},
	{"crlf", "first line\r\nsecond line\r\n"},
	{"unicode-spaces", "Grammaire\u00a0: voil\u00e0\u3000;\u2028x\u0085y\vz\f\u1680\u2003\u202f\u205f w\n"},
	{"controls", "bell\a back\b esc\x1b del\x7f nul\x00 end\n"},
	{"indented", "    indented text\n\n> quote\n"},
	{"bom-then-fence", "\ufeff"},
	{"bom-line", "\ufeff\n"},
	{"bom-text", "\ufeffA title\n"},
}

// mdFile builds a markdown file from code lines split at the given boundaries (bit i set: a new fenced block starts
// before line i+1); prose p goes before every block, tail after the last fence. Returns the file and, per code line,
// its 1-based line number in the markdown file.
func mdFile(lines []string, split uint, prose, tail string) (string, []int) {
	var b strings.Builder
	lineNo := 1
	pos := make([]int, len(lines))
	put := func(s string) {
		b.WriteString(s)
		lineNo += strings.Count(s, "\n")
	}
	open := false
	for i, l := range lines {
		if i == 0 || split&(1<<(i-1)) != 0 {
			if open {
				put("```\n")
			}
			put(prose)
			put("```\n")
			open = true
		}
		pos[i] = lineNo
		put(l + "\n")
	}
	if tail == "\x00no-final-newline" {
		// the closing fence is the very end of the file
		put("```")
		return b.String(), pos
	}
	put("```\n")
	b.WriteString(tail)
	return b.String(), pos
}

var rePos = regexp.MustCompile(`@ (\d+):(\d+)`)

func init() {
	checks["C19"] = func(tier string) int {
		t := gen.Build()
		r := ev.NewRun("C19", tier, "exploration")
		sw, done := newSweeper(t, "c19")
		defer done()
		var mu sync.Mutex
		// (with a string literal terminal holding bytes that are not UTF-8: the markdown path must not re-encode the file;
		// the character literals next to it are the corners of the code space - astral, fullwidth, private use, U+FFFD,
		// and the last code points U+10FFFF, U+10FFFE, U+FFFF - written raw)
		for _, seed := range append(allSeeds(tier), gram.Seed{Name: "strlit-not-utf8", Text: "a : 'a' ;\nb : '\U0001F600' | '\uff0b' | '\ue000' | '\ufffd' | '\U0010FFFF' | '\U0010FFFE' | '\uffff' ;\nS : a \"x\xc3\" | \"\xff\" S | b \"\uff0b\U0001F600\" ;\n"}) {
			toks, err := gram.Lexemes(seed.Text)
			if err != nil {
				ev.Inconsistent("seed %s: %v", seed.Name, err)
			}
			canon := gram.Canonical(toks)
			// code units: one per production (a fence never falls inside a token such as a multi-line << >> header)
			var lines []string
			cur := ""
			for _, tk := range toks {
				if cur != "" {
					cur += " "
				}
				cur += tk.Text
				if tk.Kind == ";" {
					lines = append(lines, cur)
					cur = ""
				}
			}
			if cur != "" {
				lines = append(lines, cur)
			}
			if len(lines) > 9 {
				lines = append(lines[:8], strings.Join(lines[8:], "\n"))
			}
			canon = strings.Join(lines, "\n") + "\n"
			// baseline: the plain .bnf with the concatenated block contents
			var base string
			var baseFiles map[string]string
			var baseOut *GenOut
			sw.run([]string{canon}, []string{"-a"}, false, false, func(o *GenOut) { base, baseFiles = outcome(o); baseOut = o })
			type job struct {
				name string
				md   string
			}
			var jobs []job
			for split := uint(0); split < 1<<(len(lines)-1); split++ {
				for pi, p := range proseMenu {
					// all prose choices for the unsplit and the fully split file, a rotating choice elsewhere
					tail := ""
					if pi%2 == 1 {
						tail = "trailing prose without final newline"
					}
					md, _ := mdFile(lines, split, p.text, tail)
					jobs = append(jobs, job{fmt.Sprintf("split=%b prose=%s", split, p.name), md})
					if pi < 2 {
						// end-of-file shapes: closing fence without final newline, blank lines after it, CRLF after it
						for ti, t := range []string{"\x00no-final-newline", "\n\n", "\r\n", " "} {
							md, _ := mdFile(lines, split, p.text, t)
							jobs = append(jobs, job{fmt.Sprintf("split=%b prose=%s eof=%d", split, p.name, ti), md})
						}
					}
				}
			}
			gen.ParallelFor(len(jobs), 0, func(i int) {
				o := sw.runMD(jobs[i].md, []string{"-a"})
				sum, files := outcome(o)
				os.RemoveAll(filepath.Dir(o.Dir))
				mu.Lock()
				defer mu.Unlock()
				r.Add("evaluations", 1)
				r.Add("markdown_files", 1)
				r.Distinct(seed.Name + "/" + jobs[i].name)
				if sum != base {
					r.Violate("c19", seed.Name+"/"+jobs[i].name, fmt.Sprintf("seed %s as markdown (%s): exit %d vs %d for the plain grammar; differing files: %s; %s", seed.Name, jobs[i].name, o.Res.Exit, baseOut.Res.Exit, diffFiles(baseFiles, files), oneLine(o.Res.Stdout)),
						map[string]any{"seed": seed.Name, "markdown": jobs[i].md, "bnf": canon, "stdout": o.Res.Stdout})
				}
				if i%211 == 5 {
					r.Sample(map[string]any{"seed": seed.Name, "case": jobs[i].name, "markdown": jobs[i].md})
				}
			})
			// diagnostics: plant a syntax error (an illegal character ?) at each token position of the code and require the
			// reported line:column to be the position the harness gave that token in the markdown file
			type djob struct {
				md        string
				line, col int
				name      string
			}
			var djobs []djob
			splits := []uint{0, 1<<(len(lines)-1) - 1, 0b0101 & (1<<(len(lines)-1) - 1)}
			for li, l := range lines {
				if strings.Contains(l, "\n") {
					continue
				}
				ltoks, _ := gram.Lexemes(l)
				// byte offsets of tokens in the line
				off := 0
				for k, tk := range ltoks {
					idx := strings.Index(l[off:], tk.Text)
					at := off + idx
					off = at + len(tk.Text)
					if tk.Kind == "g_sdt_lit" {
						continue
					}
					bad := l[:at] + "? " + l[at:]
					nl := append([]string(nil), lines...)
					nl[li] = bad
					for si, sp := range splits {
						p := proseMenu[(li+k+si)%len(proseMenu)]
						md, pos := mdFile(nl, sp, p.text, "")
						// columns count characters, not bytes (a code line may contain non-ASCII literals)
						djobs = append(djobs, djob{md, pos[li], utf8.RuneCountInString(l[:at]) + 1, fmt.Sprintf("line %d token %d split=%b prose=%s", li, k, sp, p.name)})
					}
				}
			}
			gen.ParallelFor(len(djobs), 0, func(i int) {
				o := sw.runMD(djobs[i].md, []string{"-a"})
				os.RemoveAll(filepath.Dir(o.Dir))
				mu.Lock()
				defer mu.Unlock()
				r.Add("evaluations", 1)
				r.Add("planted_errors", 1)
				m := rePos.FindStringSubmatch(o.Res.Stdout)
				want := fmt.Sprintf("%d:%d", djobs[i].line, djobs[i].col)
				switch {
				case o.Res.Exit == 0:
					// the planted ')' happened to be accepted? then it is C14's subject; here only positions are judged
					r.Add("planted_error_accepted", 1)
				case m == nil:
					r.Add("diagnostic_without_position", 1)
				case m[1]+":"+m[2] != want:
					r.Violate("c19", seed.Name+"/diag/"+djobs[i].name, fmt.Sprintf("seed %s (%s): diagnostic says %s:%s but the offending token is at %s in the markdown file: %s", seed.Name, djobs[i].name, m[1], m[2], want, oneLine(o.Res.Stdout)),
						map[string]any{"seed": seed.Name, "markdown": djobs[i].md, "stdout": o.Res.Stdout, "want": want})
				default:
					r.Distinct(seed.Name + "/diag/" + djobs[i].name)
				}
			})
			r.Add("seeds", 1)
		}
		// line endings: files written with CR LF throughout, with tokens that span lines (a raw string literal
		// terminal, a multi-line action, a multi-line file header): the markdown file and the plain file made of its
		// block contents must still be read as the same grammar
		for _, seed := range []gram.Seed{
			{Name: "crlf-rawstring", Text: "a : 'a' ;\nS : a `x\ny` | `->\n` S ;\n"},
			{Name: "crlf-action", Text: "a : 'a' ;\nS : a << func() (interface{}, error) {\n\treturn \"line1\\n\" + `raw\nraw`, nil\n}() >> ;\n"},
			{Name: "crlf-header", Text: "a : 'a' ;\n<< import (\n\t\"fmt\"\n)\n\nvar _ = fmt.Sprint >>\nS : a << fmt.Sprint($0), nil >> ;\n"},
			gram.Seeds()[0], gram.Seeds()[1],
		} {
			toks, err := gram.Lexemes(seed.Text)
			if err != nil {
				ev.Inconsistent("seed %s: %v", seed.Name, err)
			}
			var lines []string
			cur := ""
			for _, tk := range toks {
				if cur != "" {
					cur += " "
				}
				cur += tk.Text
				if tk.Kind == ";" || tk.Kind == "g_sdt_lit" && cur == tk.Text {
					lines = append(lines, cur)
					cur = ""
				}
			}
			if cur != "" {
				lines = append(lines, cur)
			}
			crlf := func(s string) string { return strings.ReplaceAll(s, "\n", "\r\n") }
			canon := crlf(strings.Join(lines, "\n") + "\n")
			var base string
			var baseFiles map[string]string
			var baseOut *GenOut
			sw.run([]string{canon}, []string{"-a"}, false, false, func(o *GenOut) { base, baseFiles = outcome(o); baseOut = o })
			for _, split := range []uint{0, 1<<(len(lines)-1) - 1} {
				for _, p := range proseMenu[:2] {
					for _, tail := range []string{"", "\x00no-final-newline"} {
						md, _ := mdFile(lines, split, p.text, tail)
						md = crlf(md)
						name := fmt.Sprintf("CRLF split=%b prose=%s tail=%q", split, p.name, tail)
						o := sw.runMD(md, []string{"-a"})
						sum, files := outcome(o)
						os.RemoveAll(filepath.Dir(o.Dir))
						r.Add("evaluations", 1)
						r.Add("markdown_files_with_crlf_line_endings", 1)
						if sum != base {
							r.Violate("c19", seed.Name+"/"+name, fmt.Sprintf("seed %s with CR LF line endings as markdown (%s): exit %d vs %d for the plain grammar; differing files: %s; %s", seed.Name, name, o.Res.Exit, baseOut.Res.Exit, diffFiles(baseFiles, files), oneLine(o.Res.Stdout)),
								map[string]any{"seed": seed.Name, "markdown": md, "bnf": canon, "stdout": o.Res.Stdout})
						} else {
							r.Distinct(seed.Name + "/" + name)
						}
					}
				}
			}
		}
		sw.checkCross()
		r.Set("rule", "per seed: the grammar split into bare ``` fenced blocks at every subset of its line boundaries, surrounded by prose from a menu (none, plain, heading with grammar-like text, inline code and tabs, non-ASCII, CRLF, Unicode space characters, control characters, indented/quote, a byte order mark directly before a fence / on a line of its own / before text; with and without trailing prose lacking a final newline; closing fence as the very end of the file, followed by blank lines, CRLF or a space): gocc x.md must give the same exit status, stdout and byte-identical packages as gocc on the concatenated block contents; plus an illegal character (?) planted at token positions: the line:column of the diagnostic must be the token's position in the markdown file; plus files with CR LF line endings throughout whose tokens span lines (raw string literal terminal, multi-line action, multi-line header); distinct = (seed, split, prose) and (seed, planted position)")
		return r.Finish(nil)
	}
}
