package main

import (
	"fmt"
	"strings"

	"verif/ev"
	"verif/gen"
	"verif/gram"
	"verif/mc"
	"verif/ref"
)

func init() {
	checks["C05"] = func(tier string) int {
		t := gen.Build()
		r := ev.NewRun("C05", tier, "model_checking")
		sw, done := newSweeper(t, "c05")
		defer done()
		fams, all := synFamilies(tier)
		// order-sensitive: every permutation of the alternatives of each conflicting seed and of the conflicting S1
		// grammars with <= 3 alternatives is added (declaration order decides reduce/reduce resolution)
		var perms []*gram.Grammar
		seenText := map[string]bool{}
		for _, fam := range fams {
			for _, g := range all[fam] {
				seenText[g.Text()] = true
			}
		}
		for _, fam := range fams {
			for _, g := range all[fam] {
				if len(g.Alts) > 4 && fam == "S1" {
					continue
				}
				c := ref.NewCFG(g)
				lr, err := c.NewLR(0)
				if err != nil {
					continue
				}
				if cs, acc := lr.ConflictStates(); len(cs) == 0 || acc {
					continue
				}
				for _, p := range gram.Permutations(g, 24) {
					if !seenText[p.Text()] {
						seenText[p.Text()] = true
						perms = append(perms, p)
					}
				}
			}
		}
		all["P"] = perms
		fams = append(fams, "P")
		recs := synSweep(sw, fams, all)
		var cands []*synRec
		for i, rec := range recs {
			if len(rec.Confl) == 0 || rec.AccConfl || rec.G.HasError() {
				continue
			}
			r.Add("grammars", 1)
			r.Add("grammars_"+rec.Fam, 1)
			a := rec.Auto
			if a.Res.Exit != 0 || a.Res.Hang {
				// C04's subject
				continue
			}
			if a.ReadErr != "" || a.Par == nil {
				ev.Inconsistent("table reader cannot read the tables emitted with -a: %s\n%s", a.ReadErr, rec.Text)
			}
			cands = append(cands, rec)
			tab := mc.NewReadTable(a.Par, a.Tok.TypeMap)
			pr := mc.LRProduct(tab, rec.LR)
			r.Add("states", int64(pr.Pairs))
			r.Add("transitions", int64(pr.Edges))
			r.Add("conflict_cells", int64(pr.ConflictCells))
			r.Add("evaluations", 1)
			if pr.Mismatch != "" {
				// confirm on a concrete token sequence: the two machines must differ in verdict or reductions
				terms := inputTerms(rec.C)
				wit, what := divergence(rec.C, tab, rec.LR, terms, seqBound(tier, len(terms))+1)
				if wit == nil {
					r.Add("structural_leads_unconfirmed", 1)
					fmt.Printf("NOTE: -a table differs structurally from the resolved canonical LR(1) but no diverging sequence found: %s\n  %s\n", pr.Mismatch, oneLine(rec.Text))
					continue
				}
				r.Violate("c05", rec.Text+"|"+strings.Join(wit, " "), fmt.Sprintf("%s; on tokens [%s]: %s\n  grammar: %s", pr.Mismatch, strings.Join(wit, " "), what, oneLine(rec.Text)),
					map[string]any{"grammar": rec.Text, "tokens": wit, "flags": []string{"-a"}, "level": "read-back tables"})
				continue
			}
			r.Distinct(fmt.Sprintf("%d/%d/%s", pr.Pairs, pr.ConflictCells, rec.G.ID()))
			if i%400 == 1 {
				r.Sample(map[string]any{"grammar": oneLine(rec.Text), "conflict_states": rec.Confl, "conflict_cells": pr.ConflictCells, "product_pairs": pr.Pairs})
			}
		}
		budget := 30
		if tier == "thorough" {
			budget = 300
		}
		sel := selectSyn(cands, func(rec *synRec) *GenOut { return rec.Auto }, budget)
		runParseTask(t, sw, r, "C05", tier, "auto", sel, []string{"-a"})
		r.Set("cli_cross_checked", sw.pool.CrossChecked.Load())
		r.Set("rule", "every conflicting grammar (no accept conflict) of S1/S2 plus all permutations of the alternatives of the small ones, generated with -a: (A) product of the read-back table with the canonical LR(1) automaton resolved by 'shift if any, else lowest production', cell by cell, to closure; (B) compiled unmodified parsers: verdict and reduction sequence on every token sequence up to the bound against the resolved reference machine; distinct = grammars whose product closed")
		return r.Finish(nil)
	}
}

// divergence finds a token sequence on which the two tables differ in verdict or reduction sequence.
func divergence(c *ref.CFG, a, b ref.Table, terms []string, n int) ([]string, string) {
	var wit []string
	what := ""
	check := func(seq []string) bool {
		x, y := ref.Drive(c, a, seq, false), ref.Drive(c, b, seq, false)
		if x.Loop || x.Bad != "" {
			wit, what = append([]string(nil), seq...), "emitted table: "+x.Bad+fmt.Sprint(" loop=", x.Loop)
			return true
		}
		if x.Accept != y.Accept || fmt.Sprint(x.Reduces) != fmt.Sprint(y.Reduces) {
			wit = append([]string(nil), seq...)
			what = fmt.Sprintf("emitted accepts=%v reductions=%v, rule demands accepts=%v reductions=%v", x.Accept, x.Reduces, y.Accept, y.Reduces)
			return true
		}
		return false
	}
	if check(nil) {
		return wit, what
	}
	walkSeqs(terms, n, func(seq []string) bool {
		if wit != nil {
			return false
		}
		check(seq)
		return wit == nil
	}, func() {})
	return wit, what
}
