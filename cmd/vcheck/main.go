// vcheck <property> <quick|thorough> | vcheck replay <file>
package main

import (
	"fmt"
	"os"
	"sort"
	"time"

	"verif/ev"
)

type checkFn func(tier string) int

var checks = map[string]checkFn{}
var replays = map[string]func(rp *ev.Replay) int{}

// deadline for a tier: internal time budgets end a run with exit 0 and exhaustive:false.
func budget(tier string, quick, thorough time.Duration) time.Time {
	if tier == "thorough" {
		return time.Now().Add(thorough)
	}
	return time.Now().Add(quick)
}

func main() {
	if len(os.Args) < 3 {
		usage()
	}
	if os.Args[1] == "replay" {
		os.Exit(doReplay(os.Args[2]))
	}
	f, ok := checks[os.Args[1]]
	tier := os.Args[2]
	if t := os.Getenv("VERIF_TIER"); t != "" && len(os.Args) < 3 {
		tier = t
	}
	if !ok || (tier != "quick" && tier != "thorough" && os.Args[1] != "setup") {
		usage()
	}
	os.Exit(f(tier))
}

func usage() {
	var ids []string
	for k := range checks {
		ids = append(ids, k)
	}
	sort.Strings(ids)
	fmt.Fprintln(os.Stderr, "usage: vcheck <property> <quick|thorough> | vcheck replay <file>; properties:", ids)
	os.Exit(2)
}
