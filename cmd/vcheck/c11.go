package main

import (
	"bytes"
	"fmt"
	"os"
	"path/filepath"
	"sort"
	"strings"
	"sync"

	"verif/ev"
	"verif/gen"
	"verif/gram"
)

// goOutcome: exit status, conflict-count line and the bytes of every emitted .go file.
func goOutcome(dir string, res gen.Result) (string, map[string]string) {
	files := map[string]string{}
	for rel, b := range gen.ReadTree(filepath.Join(dir, "o")) {
		if strings.HasSuffix(rel, ".go") {
			files[rel] = string(b)
		}
	}
	var names []string
	for n := range files {
		names = append(names, n)
	}
	sort.Strings(names)
	var sb strings.Builder
	fmt.Fprintf(&sb, "exit=%d conflicts=%d\n", res.Exit, conflLine(res.Stdout))
	for _, n := range names {
		fmt.Fprintf(&sb, "%s %d %x\n", n, len(files[n]), hashStr(files[n]))
	}
	return sb.String(), files
}

func hashStr(s string) uint64 {
	var h uint64 = 1469598103934665603
	for i := 0; i < len(s); i++ {
		h ^= uint64(s[i])
		h *= 1099511628211
	}
	return h
}

func c11Corpus(tier string) []gram.Seed {
	var out []gram.Seed
	out = append(out, gram.Seeds()...)
	out = append(out, exampleSeeds(tier)...)
	for i, g := range gram.S2() {
		if tier == "thorough" || i%4 == 0 || len(g.NonTerminals()) >= 3 {
			out = append(out, gram.Seed{Name: fmt.Sprint("S2-", i), Text: g.Text()})
		}
	}
	// token names that differ only in letter case, digits or underscores (a comparator that is not a total order
	// leaves them in map order), none of them used by a syntax rule
	out = append(out, gram.Seed{Name: "case-colliding-names", Text: "kwIf : 'a' ;\nkwif : 'b' ;\nkwIF : 'c' ;\nt1 : 'd' ;\nt01 : 'e' ;\na_b : 'f' ;\na__b : 'g' ;\naB : 'h' ;\nab : 'i' ;\nS : \"x\" S | \"y\" ;\n"},
		gram.Seed{Name: "case-colliding-lexer-only", Text: "kwIf : 'a' ;\nkwif : 'b' ;\nkwIF : 'c' ;\n!wS : ' ' ;\n!ws : '\\t' ;\n"})
	// regular definitions that only ignored tokens use, or that nothing uses, each introducing characters no token has
	// (whatever is derived from them alone - symbol tables, comments in emitted files - has no other order to fall back on)
	out = append(out, gram.Seed{Name: "regdefs-used-by-ignored-only", Text: "id : 'a'-'z' { 'a'-'z' } ;\n!comment : _line | _block ;\n_line : '/' '/' { . } '\\n' ;\n_block : '/' '*' { 'A'-'Z' | '%' } '*' '/' ;\n_unusedx : '0'-'4' '#' ;\n_unusedy : '5'-'9' '@' ;\n_unusedz : '&' ;\n!ws : ' ' | '\\t' ;\nS : id | S id ;\n"},
		gram.Seed{Name: "regdefs-unused-lexer-only", Text: "t : 'a' ;\n_p : '1' ;\n_q : '2' ;\n_r : '3' '4' ;\n_s : '5'-'7' ;\n!i : _p _q ;\n"})
	// a start symbol that derives itself (accept against reduce: the generator refuses such grammars; that, too, must
	// not depend on the order in which a map hands out the items)
	for i, s := range []string{"S: S | a", "S: A | a ; A: S", "Stmts: Stmts Stmt Opt | Stmts Opt | Stmt ; Stmt: a ; Opt: empty | semi"} {
		out = append(out, gram.Seed{Name: fmt.Sprint("cyclic-start-", i), Text: gram.Mk(s).Text()})
	}
	for i, g := range gram.L6() {
		out = append(out, gram.Seed{Name: fmt.Sprint("L6-", i), Text: g.Text()})
	}
	for i, g := range gram.ErrSeeds() {
		if tier == "thorough" || i%7 == 0 {
			out = append(out, gram.Seed{Name: fmt.Sprint("Err-", i), Text: g.Text()})
		}
	}
	return out
}

func init() {
	checks["C11"] = func(tier string) int {
		t := gen.Build()
		r := ev.NewRun("C11", tier, "exploration")
		mi := t.BuildMO()
		root, cleanup := gen.Scratch("c11")
		defer cleanup()
		plain := t.NewPool(0)
		defer plain.Close()
		inst := t.NewPoolFor(mi.Batch, 0)
		defer inst.Close()
		r.Set("map_range_sites", len(mi.Sites))
		r.Set("sites", mi.Sites)
		for _, o := range mi.Other {
			r.Assumption("possible un-owned nondeterminism source (not a violation by itself): " + o)
		}
		policies := []string{"desc", "rot1", "swap01", "midout"}
		flagSets := [][]string{{"-a"}, {"-a", "-zip"}, {"-a", "-v"}}
		if tier == "thorough" {
			flagSets = append(flagSets, []string{"-a", "-zip", "-debug_lexer", "-debug_parser"}, []string{"-a", "-no_lexer"})
		}
		type jobT struct {
			seed   gram.Seed
			flags  []string
			policy string // VERIF_MAPORDER value; "" = default; "PLAIN" = uninstrumented binary; "CLI" = real CLI
		}
		var jobs []jobT
		corpus := c11Corpus(tier)
		nWell := len(corpus)
		// ill-formed grammars too: the exit status (and that nothing is written) must not depend on iteration order
		for _, sd := range gram.Seeds()[:4] {
			toks, _ := gram.Lexemes(sd.Text)
			for i, m := range gram.Mutants(toks) {
				if m.Kind == "rename" || m.Kind == "dup" || (m.Kind == "del" && i%5 == 0) || (m.Kind == "sub" && i%97 == 0 && tier == "thorough") {
					corpus = append(corpus, gram.Seed{Name: "mutant-" + sd.Name + "/" + m.Desc, Text: gram.Canonical(m.Toks)})
				}
			}
		}
		r.Set("well_formed_grammars", nWell)
		r.Set("mutant_grammars", len(corpus)-nWell)
		for si, s := range corpus {
			for fi, f := range flagSets {
				if si >= nWell && fi > 0 {
					continue
				}
				jobs = append(jobs, jobT{s, f, ""}, jobT{s, f, "PLAIN"}, jobT{s, f, "PLAIN"}, jobT{s, f, "CLI"})
				for _, site := range mi.Sites {
					for _, p := range policies {
						jobs = append(jobs, jobT{s, f, site + "=" + p})
					}
				}
				for _, p := range policies {
					jobs = append(jobs, jobT{s, f, p}) // all sites at once
				}
				if tier == "thorough" {
					for i := 0; i < len(mi.Sites); i++ {
						for j := i + 1; j < len(mi.Sites); j++ {
							jobs = append(jobs, jobT{s, f, mi.Sites[i] + "=desc," + mi.Sites[j] + "=rot1"}, jobT{s, f, mi.Sites[i] + "=swap01," + mi.Sites[j] + "=desc"})
						}
					}
				}
			}
		}
		outs := make([]string, len(jobs))
		files := make([]map[string]string, len(jobs))
		visited := map[string]bool{}
		var mu sync.Mutex
		gen.ParallelFor(len(jobs), 0, func(i int) {
			j := jobs[i]
			jroot := filepath.Join(root, fmt.Sprintf("r%d", i))
			dir := filepath.Join(jroot, "w")
			os.MkdirAll(dir, 0o777)
			os.WriteFile(filepath.Join(jroot, "go.mod"), []byte("module vt\n\ngo 1.24\n"), 0o666)
			os.WriteFile(filepath.Join(dir, "g.bnf"), []byte(j.seed.Text), 0o666)
			args := append(append([]string{}, j.flags...), "-o", "o", "g.bnf")
			var res gen.Result
			switch j.policy {
			case "PLAIN":
				res = plain.Run(gen.Job{Dir: dir, Args: args})
			case "CLI":
				res = t.RunCLI(dir, args...)
			default:
				env := map[string]string{"VERIF_MAPORDER": j.policy}
				if j.policy == "" {
					env["VERIF_MAPORDER_LOG"] = filepath.Join(jroot, "sites.log")
				}
				res = inst.Run(gen.Job{Dir: dir, Args: args, Env: env})
				if b, err := os.ReadFile(filepath.Join(jroot, "sites.log")); err == nil {
					mu.Lock()
					for _, l := range strings.Split(string(b), "\n") {
						if f := strings.Fields(l); len(f) == 2 {
							visited[f[0]] = true
						}
					}
					mu.Unlock()
				}
			}
			outs[i], files[i] = goOutcome(dir, res)
			os.RemoveAll(jroot)
		})
		// compare every run with the default-policy run of the same (grammar, flags)
		base := map[string]int{}
		for i, j := range jobs {
			if j.policy == "" {
				base[j.seed.Name+strings.Join(j.flags, " ")] = i
			}
		}
		distinctOut := map[string]map[string]bool{}
		for i, j := range jobs {
			k := j.seed.Name + strings.Join(j.flags, " ")
			b := base[k]
			r.Add("evaluations", 1)
			if distinctOut[k] == nil {
				distinctOut[k] = map[string]bool{}
			}
			distinctOut[k][outs[i]] = true
			kind := "policy"
			if j.policy == "PLAIN" || j.policy == "CLI" {
				kind = "uninstrumented"
			}
			r.Add("runs_"+kind, 1)
			if outs[i] != outs[b] {
				var diff []string
				for n, c := range files[b] {
					if files[i][n] != c {
						diff = append(diff, n)
					}
				}
				sort.Strings(diff)
				if kind == "uninstrumented" && j.policy == "PLAIN" || j.policy == "CLI" {
					// the uninstrumented program draws Go's own random order: a difference is nondeterminism observed directly
					r.Violate("c11", k+" "+j.policy+fmt.Sprint(i), fmt.Sprintf("%s %v: a plain repeated run differs from the sorted-order run (%s): exit/conflicts %q vs %q", j.seed.Name, j.flags, strings.Join(diff, ", "), firstLine(outs[i]), firstLine(outs[b])),
						map[string]any{"grammar": j.seed.Text, "flags": j.flags, "differing_files": diff})
				} else {
					r.Violate("c11", k+" "+j.policy, fmt.Sprintf("%s %v: iteration order %q changes the output (%s): exit/conflicts %q vs %q", j.seed.Name, j.flags, j.policy, strings.Join(diff, ", "), firstLine(outs[i]), firstLine(outs[b])),
						map[string]any{"grammar": j.seed.Text, "flags": j.flags, "policy": j.policy, "differing_files": diff})
				}
				continue
			}
			r.Distinct(k + " " + j.policy + fmt.Sprint(kind == "uninstrumented", i%3))
			if i%1777 == 5 {
				r.Sample(map[string]any{"grammar": j.seed.Name, "flags": j.flags, "order_policy": j.policy, "outcome": firstLine(outs[i])})
			}
		}
		maxDistinct := 0
		for _, m := range distinctOut {
			if len(m) > maxDistinct {
				maxDistinct = len(m)
			}
		}
		var vis []string
		for s := range visited {
			vis = append(vis, s)
		}
		sort.Strings(vis)
		r.Set("sites_reached_with_2plus_keys", vis)
		r.Set("max_distinct_outputs_per_grammar_and_flags", maxDistinct)
		r.Set("grammar_flag_pairs", len(base))
		// the same command three times in the SAME directory (the second and third run find the output of the first),
		// with -o through a plain directory and through a symbolic link: all three outputs must be byte-identical
		for si, sd := range gram.Seeds()[:2] {
			for _, via := range []string{"plain", "symlink"} {
				jroot := filepath.Join(root, fmt.Sprintf("same%d%s", si, via))
				dir := filepath.Join(jroot, "w")
				os.MkdirAll(filepath.Join(dir, "generated"), 0o777)
				os.WriteFile(filepath.Join(jroot, "go.mod"), []byte("module vt\n\ngo 1.24\n"), 0o666)
				os.WriteFile(filepath.Join(dir, "g.bnf"), []byte(sd.Text), 0o666)
				out := "generated/gen"
				if via == "symlink" {
					if err := os.Symlink("generated", filepath.Join(dir, "out")); err != nil {
						continue
					}
					out = "out/gen"
				}
				var trees []map[string][]byte
				var exits []int
				for k := 0; k < 3; k++ {
					res := t.RunCLI(dir, "-a", "-o", out, "g.bnf")
					exits = append(exits, res.Exit)
					trees = append(trees, gen.ReadTree(filepath.Join(dir, "generated", "gen")))
				}
				r.Add("evaluations", 3)
				r.Add("repeated_runs_in_the_same_directory", 1)
				for k := 1; k < 3; k++ {
					bad := ""
					if exits[k] != exits[0] {
						bad = fmt.Sprintf("exit status %d then %d", exits[0], exits[k])
					}
					for name, b0 := range trees[0] {
						if strings.HasSuffix(name, ".go") && !bytes.Equal(b0, trees[k][name]) {
							bad = name + " differs"
						}
					}
					if len(trees[k]) != len(trees[0]) {
						bad = "different sets of files"
					}
					if bad != "" {
						r.Violate("c11", fmt.Sprintf("same-dir %s %s run%d", sd.Name, via, k+1), fmt.Sprintf("seed %s, gocc -a -o %s g.bnf run %d times in the same directory (-o through a %s): run 1 and run %d differ: %s", sd.Name, out, k+1, via, k+1, bad), map[string]any{"seed": sd.Name, "via": via})
						break
					}
				}
				os.RemoveAll(jroot)
			}
		}
		r.Set("rule", "corpus = seeds, S2/L6/ErrFam picks and single-edit mutants of seeds (ill-formed grammars: exit status must be stable too); gocc rebuilt (overlay, /repo untouched) with every range-over-map routed through a shim that yields keys in a chosen order; per grammar x flag set: default (sorted) order, then every static range site x every non-default order policy {desc, rot1, swap01, midout} (deviation 1), every policy at all sites at once (thorough: pairs of sites), the uninstrumented in-process binary twice and the real CLI once; all .go bytes, exit status and the conflict count must equal the default run; distinct = (grammar, flags, policy) runs that agreed")
		r.Assumption("arbitrary key permutations over-approximate what the Go runtime can do; orders outside the policy menu are not explored; goroutines/clocks/random numbers are asserted absent syntactically")
		return r.Finish(nil)
	}
}

func firstLine(s string) string {
	if i := strings.IndexByte(s, '\n'); i >= 0 {
		return s[:i]
	}
	return s
}
