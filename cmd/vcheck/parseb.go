package main

import (
	"encoding/json"
	"fmt"
	"sort"
	"strings"

	"verif/corp"
	"verif/drv"
	"verif/ev"
	"verif/gen"
	"verif/gram"
)

// selectSyn picks the layer-B selection: per family a quota of the budget, within a family the smallest grammars
// with pairwise distinct emitted tables (S1, being large, is also spread over its size range).
func selectSyn(cands []*synRec, out func(*synRec) *GenOut, budget int) []*synRec {
	quota := map[string]float64{"S2": 0.40, "S4": 0.15, "S3": 0.10, "P": 0.10, "S1": 0.25}
	byFam := map[string][]*synRec{}
	var fams []string
	for _, r := range cands {
		if _, ok := byFam[r.Fam]; !ok {
			fams = append(fams, r.Fam)
		}
		byFam[r.Fam] = append(byFam[r.Fam], r)
	}
	sort.Strings(fams)
	seen := map[string]bool{}
	var sel []*synRec
	left := budget
	for fi, fam := range fams {
		q := int(quota[fam]*float64(budget) + 0.5)
		if q == 0 {
			q = budget / 10
		}
		if fi == len(fams)-1 || q > left {
			q = left
		}
		sorted := append([]*synRec(nil), byFam[fam]...)
		sort.SliceStable(sorted, func(i, j int) bool { return len(sorted[i].Text) < len(sorted[j].Text) })
		stride := 1
		if len(sorted) > 6*q && q > 0 {
			stride = len(sorted) / (3 * q)
		}
		n := 0
		for i, rec := range sorted {
			if n >= q {
				break
			}
			if i > q/2 && i%stride != 0 {
				continue
			}
			o := out(rec)
			if o == nil || o.Par == nil {
				continue
			}
			b, _ := json.Marshal(o.Par)
			if seen[string(b)] {
				continue
			}
			seen[string(b)] = true
			sel = append(sel, rec)
			n++
		}
		left -= n
	}
	return sel
}

// runParseTask builds a corpus of the given grammars (with recording actions) and runs the driver's parse task.
func runParseTask(t *gen.Tools, sw *sweeper, r *ev.Run, prop, tier, mode string, sel []*synRec, flags []string) {
	var items []*corp.Item
	for _, rec := range sel {
		it := corp.NewItem(rec.Fam, gram.WithRecActions(rec.G), flags...)
		it.RtImp = true
		items = append(items, it)
	}
	c, err := corp.Build(t, sw.pool, strings.ToLower(prop)+"b", items)
	defer c.Close()
	if err != nil {
		ev.Inconsistent("layer-B corpus: %v", err)
	}
	n := 5
	if tier == "thorough" {
		n = 7
	}
	byItem := map[string]*corp.Item{}
	for _, it := range c.Items {
		byItem[it.ID] = it
		if !it.GenOK && !skipNotCompiling(it) {
			ev.Inconsistent("generation with recording actions failed (exit %d): %s\n%s", it.Exit, it.Stdout, it.Text)
		}
	}
	err = c.Run("parse", n, map[string]any{"mode": mode}, 16, func(line []byte) {
		var o drv.Out
		if json.Unmarshal(line, &o) != nil {
			ev.Inconsistent("driver output: %s", line)
		}
		switch o.Kind {
		case "inconsistent":
			ev.Inconsistent("driver: item %s: %s\n%s", o.Item, o.What, byItem[o.Item].Text)
		case "violation":
			if o.Prop == prop {
				r.Violate("parse", o.Key, o.What+"\n  grammar: "+oneLine(byItem[o.Item].Text), o.Case)
			} else {
				fmt.Printf("NOTE: %s violation seen while checking %s (reported by that property's check): %s\n", o.Prop, prop, o.What)
			}
		case "stats":
			r.Add("parsers_compiled", 1)
			for k, v := range o.Counters {
				switch k {
				case "sequences":
					r.Add("traces_validated_against_impl", v)
					r.Add("sequences_parsed_compiled", v)
				case "bound":
				default:
					r.Add("compiled_"+k, v)
				}
			}
			for _, d := range o.Distinct {
				r.Distinct(o.Item + d)
			}
			for _, s := range o.Samples {
				r.Sample(s)
			}
		}
	})
	if err != nil {
		driverFailed(r, prop, "parse", c, err)
	}
}

func parseLayerB(t *gen.Tools, sw *sweeper, r *ev.Run, prop, tier string, cands []*synRec) {
	budget := 60
	if tier == "thorough" {
		budget = 500
	}
	sel := selectSyn(cands, func(rec *synRec) *GenOut { return rec.Plain }, budget)
	// always with them: the hand-written seeds with five or more terminals (states that expect many tokens at once)
	inSel := map[*synRec]bool{}
	for _, rec := range sel {
		inSel[rec] = true
	}
	extra := 0
	for _, rec := range cands {
		if rec.Fam == "S2" && !inSel[rec] && len(rec.G.Terminals()) >= 5 && extra < 8 {
			sel = append(sel, rec)
			extra++
		}
	}
	runParseTask(t, sw, r, prop, tier, "lr1", sel, nil)
}

func init() {
}
