package main

import (
	"fmt"
	"sort"
	"strconv"
	"sync"
	"unicode/utf8"

	"verif/ev"
	"verif/gen"
	"verif/gram"
	"verif/mc"
	"verif/ref"
)

// c20EndToEnd: a grammar spelling a rune literal is run through the real generator; the emitted transition test of
// the start state must be `r == <code point Go assigns to the literal>` (gocc reads the literal as Go does).
func c20EndToEnd(t *gen.Tools, r *ev.Run, root, tier string) {
	sw, done := newSweeper(t, "c20e")
	defer done()
	var lits []string
	cps := []rune{0, 1, 7, 8, 9, 10, 11, 12, 13, 0x1f, ' ', '!', '"', '%', '\'', '0', '9', 'A', 'Z', '\\', '`', 'a', 'z', '{', '}', '~', 0x7f, 0x80, 0xa0, 0xff, 0x100, 0x7ff, 0x800, 0xfff, 0x1000, 0xd7ff, 0xe000, 0xfffd, 0xfffe, 0xffff, 0x10000, 0x1f600, 0x10fffe, 0x10ffff}
	if tier == "thorough" {
		for c := rune(0); c < 0x300; c++ {
			cps = append(cps, c)
		}
		for c := rune(0x10000); c < 0x110000; c += 0x1111 {
			cps = append(cps, c)
		}
	}
	for _, cp := range cps {
		if cp != '\n' && cp != '\'' && cp != '\\' && cp != '\r' {
			var b [4]byte
			n := utf8.EncodeRune(b[:], cp)
			lits = append(lits, "'"+string(b[:n])+"'")
		}
		lits = append(lits, fmt.Sprintf(`'\U%08x'`, cp), fmt.Sprintf(`'\U%08X'`, cp))
		if cp <= 0xffff {
			lits = append(lits, fmt.Sprintf(`'\u%04x'`, cp), fmt.Sprintf(`'\u%04X'`, cp))
		}
		if cp <= 0xff {
			lits = append(lits, fmt.Sprintf(`'\x%02x'`, cp), fmt.Sprintf(`'\x%02X'`, cp), fmt.Sprintf(`'\%03o'`, cp))
		}
	}
	lits = append(lits, `'\a'`, `'\b'`, `'\f'`, `'\n'`, `'\r'`, `'\t'`, `'\v'`, `'\\'`, `'\''`)
	texts := make([]string, len(lits))
	for i, l := range lits {
		texts[i] = "t : " + l + " ;\n"
	}
	var mu sync.Mutex
	sw.run(texts, nil, true, false, func(o *GenOut) {
		lit := lits[o.Idx]
		want, _, tail, err := strconv.UnquoteChar(lit[1:], '\'')
		if err != nil || tail != "'" {
			ev.Inconsistent("end-to-end literal %q is not a valid Go rune literal", lit)
		}
		mu.Lock()
		defer mu.Unlock()
		r.Add("end_to_end_literals", 1)
		r.Add("evaluations", 1)
		bad := ""
		switch {
		case o.Res.Hang || o.Res.Exit != 0:
			bad = fmt.Sprintf("gocc refuses the valid rune literal (exit %d): %s", o.Res.Exit, oneLine(o.Res.Stdout+o.Res.Stderr))
		case o.ReadErr != "":
			ev.Inconsistent("table reader cannot read the emitted lexer tables: %s", o.ReadErr)
		case len(o.Lex.States) < 1 || len(o.Lex.States[0].Cases) != 1 || o.Lex.States[0].Cases[0].Lo != want || o.Lex.States[0].Cases[0].Hi != want:
			bad = fmt.Sprintf("the generated lexer tests for %v, Go reads the literal as %#x", o.Lex.States[0].Cases, want)
		}
		if bad != "" {
			r.Violate("c20", "e2e "+lit, fmt.Sprintf("grammar  t : %s ;  : %s", lit, bad), map[string]any{"subject": "end-to-end", "lit": lit, "want": fmt.Sprintf("%#x", want), "got": bad})
			return
		}
		r.Distinct("e2e" + lit)
	})
	// several literals in ONE grammar (the reading of a literal must not depend on the others): chunks of six
	// consecutive literals of the list, one token each; the start state must test exactly their code points
	var gtexts []string
	var gwant [][]rune
	for i := 0; i+6 <= len(lits); i += 5 {
		text := ""
		set := map[rune]bool{}
		for k, l := range lits[i : i+6] {
			text += fmt.Sprintf("t%d : %s ;\n", k, l)
			v, _, _, _ := strconv.UnquoteChar(l[1:], '\'')
			set[v] = true
		}
		var w []rune
		for v := range set {
			w = append(w, v)
		}
		sort.Slice(w, func(a, b int) bool { return w[a] < w[b] })
		gtexts = append(gtexts, text)
		gwant = append(gwant, w)
	}
	// the same, grouped by spelling kind: six DIFFERENT code points spelled the same way (shared prefixes such as
	// \u00.. or \U0000.., shared lead bytes) in one grammar
	kinds := map[string][]string{}
	var kindOrder []string
	for _, l := range lits {
		k := "raw" + strconv.Itoa(len(l))
		if l[1] == '\\' && len(l) > 3 {
			k = l[1:3]
			if l[2] >= '0' && l[2] <= '7' {
				k = "oct"
			}
			if l[3] >= 'A' && l[3] <= 'F' || l[len(l)-2] >= 'A' && l[len(l)-2] <= 'F' {
				k += "U"
			}
		}
		if _, seen := kinds[k]; !seen {
			kindOrder = append(kindOrder, k)
		}
		kinds[k] = append(kinds[k], l)
	}
	for _, k := range kindOrder {
		ls := kinds[k]
		for i := 0; i < len(ls); i += 5 {
			end := i + 6
			if end > len(ls) {
				end = len(ls)
			}
			if end-i < 2 {
				break
			}
			text := ""
			set := map[rune]bool{}
			for q, l := range ls[i:end] {
				v, _, _, _ := strconv.UnquoteChar(l[1:], '\'')
				if set[v] {
					continue
				}
				text += fmt.Sprintf("t%d : %s ;\n", q, l)
				set[v] = true
			}
			var w []rune
			for v := range set {
				w = append(w, v)
			}
			sort.Slice(w, func(a, b int) bool { return w[a] < w[b] })
			gtexts = append(gtexts, text)
			gwant = append(gwant, w)
		}
	}
	sw.run(gtexts, nil, true, false, func(o *GenOut) {
		mu.Lock()
		defer mu.Unlock()
		r.Add("end_to_end_multi_literal_grammars", 1)
		r.Add("evaluations", 1)
		if o.Res.Hang || o.Res.Exit != 0 {
			r.Violate("c20", "e2e-multi "+oneLine(o.Text), fmt.Sprintf("gocc refuses a grammar of valid rune literals (exit %d): %s\n  grammar: %s", o.Res.Exit, oneLine(o.Res.Stdout+o.Res.Stderr), oneLine(o.Text)), map[string]any{"subject": "end-to-end", "grammar": o.Text})
			return
		}
		if o.ReadErr != "" {
			ev.Inconsistent("table reader cannot read the emitted lexer tables: %s", o.ReadErr)
		}
		var got []rune
		ok := len(o.Lex.States) > 0
		if ok {
			for _, c := range o.Lex.States[0].Cases {
				if c.Lo != c.Hi {
					ok = false
				}
				got = append(got, c.Lo)
			}
		}
		want := gwant[o.Idx]
		if !ok || fmt.Sprint(got) != fmt.Sprint(want) {
			r.Violate("c20", "e2e-multi "+oneLine(o.Text), fmt.Sprintf("the generated lexer's start state tests the runes %v, Go reads the literals as %v\n  grammar: %s", got, want, oneLine(o.Text)), map[string]any{"subject": "end-to-end", "grammar": o.Text})
			return
		}
		r.Distinct("e2em" + oneLine(o.Text))
	})
	// a literal on an encoding boundary next to a range that contains it (the generator splits the range around the
	// literal: the code point must survive that too): emitted tables against the reference automaton to closure
	type edgeCase struct {
		text string
		g    *gram.Grammar
	}
	var edges []edgeCase
	for _, cp := range []rune{0x7f, 0x80, 0x7ff, 0x800, 0xd7ff, 0xe000, 0xfffd, 0xffff, 0x10000, 0x10fffe, 0x10ffff} {
		var spell []string
		if cp != 0x7f {
			spell = append(spell, "'"+string(cp)+"'")
		}
		spell = append(spell, fmt.Sprintf(`'\U%08x'`, cp))
		if cp <= 0xffff {
			spell = append(spell, fmt.Sprintf(`'\u%04X'`, cp))
		}
		type rg struct{ lo, hi rune }
		for _, r := range []rg{{0, 0x10ffff}, {cp - 2, cp}, {cp, cp + 2}, {cp - 1, cp + 1}} {
			if r.hi > 0x10ffff || r.lo < 0 || (r.lo >= 0xd800 && r.lo <= 0xdfff) || (r.hi >= 0xd800 && r.hi <= 0xdfff) {
				continue
			}
			for _, sp := range spell {
				text := fmt.Sprintf("t0 : %s ;\nt1 : %s-%s 'x' ;\n", sp, gram.RuneLit(r.lo), gram.RuneLit(r.hi))
				g := &gram.Grammar{Lex: []gram.LexDef{{Name: "t0", Kind: "tok", P: gram.Lit(cp)}, {Name: "t1", Kind: "tok", P: gram.Seq(gram.Rng(r.lo, r.hi), gram.Lit('x'))}}}
				edges = append(edges, edgeCase{text, g})
			}
		}
	}
	// ... and in a start state that already holds 12-18 / 29-34 other classes (the code point of a literal inside a
	// range must survive the splitting of the range whatever the size of the set it is split in)
	for _, n := range []int{12, 13, 14, 15, 16, 17, 18, 29, 30, 31, 32, 33, 34} {
		g := &gram.Grammar{}
		for i := 0; i < n; i++ {
			g.Lex = append(g.Lex, gram.LexDef{Name: fmt.Sprintf("p%d", i), Kind: "tok", P: gram.Lit(rune(0x21 + 2*i))})
		}
		g.Lex = append(g.Lex, gram.LexDef{Name: "w", Kind: "tok", P: gram.Seq(gram.Rng(0xc0, 0xff), gram.Lit('x'))}, gram.LexDef{Name: "e", Kind: "tok", P: gram.Seq(gram.Lit(0xe9), gram.Lit('!'))})
		edges = append(edges, edgeCase{g.Text(), g})
	}
	etexts := make([]string, len(edges))
	for i, e := range edges {
		etexts[i] = e.text
	}
	sw.run(etexts, nil, true, false, func(o *GenOut) {
		mu.Lock()
		defer mu.Unlock()
		r.Add("end_to_end_edge_literal_in_range_grammars", 1)
		r.Add("evaluations", 1)
		e := edges[o.Idx]
		if o.Res.Hang || o.Res.Exit != 0 {
			r.Violate("c20", "e2e-edge "+oneLine(o.Text), fmt.Sprintf("gocc refuses a grammar of valid rune literals (exit %d): %s\n  grammar: %s", o.Res.Exit, oneLine(o.Res.Stdout+o.Res.Stderr), oneLine(o.Text)), map[string]any{"subject": "end-to-end", "grammar": o.Text})
			return
		}
		if o.ReadErr != "" {
			ev.Inconsistent("table reader cannot read the emitted lexer tables: %s", o.ReadErr)
		}
		lr, err := ref.NewLexRef(e.g.Lex, nil)
		if err != nil {
			ev.Inconsistent("edge grammar rejected by the reference: %v", err)
		}
		if res := mc.LexProduct(o.Lex, o.Tok.TypeMap, lr, false); res.Mismatch != "" {
			r.Violate("c20", "e2e-edge "+oneLine(o.Text), fmt.Sprintf("the generated lexer does not read the literals of this grammar as the code points Go assigns: %s (witness %q)\n  grammar: %s", res.Mismatch, string(res.Witness), oneLine(o.Text)), map[string]any{"subject": "end-to-end", "grammar": o.Text})
			return
		}
		r.Distinct("e2ee" + oneLine(o.Text))
	})
	sw.checkCross()
}
