package main

import (
	"verif/ev"
	"verif/gen"
)

// c20EndToEnd: filled in once the table reader exists (grammar spelling a literal -> emitted transition test).
var c20EndToEnd = func(t *gen.Tools, r *ev.Run, root, tier string) {}
