package main

import (
	"verif/corp"
	"verif/ev"
	"verif/gen"
	"verif/gram"
)

// reuseItems is the grammar selection shared by C16 and C17: conflict-free picks, error-recovery seeds,
// conflicting grammars (generated with -a) and lexer-only grammars.
func reuseItems(sw *sweeper, tier string, flags ...string) []*corp.Item {
	budget := 14
	if tier == "thorough" {
		budget = 60
	}
	var items []*corp.Item
	add := func(fam string, g *gram.Grammar, fl ...string) {
		it := corp.NewItem(fam, gram.WithRecActions(g), append(append([]string{}, flags...), fl...)...)
		it.RtImp = len(g.Alts) > 0
		items = append(items, it)
	}
	for _, rec := range selectSyn(conflictFreeRecs(sw, "quick"), func(rec *synRec) *GenOut { return rec.Plain }, budget) {
		add(rec.Fam, rec.G)
	}
	// nesting, right- and left-recursive shapes (deep inputs drive the parser stack beyond its initial capacity)
	for _, s := range []string{"S: l S r | x", "L: x L | x", "E: E p T | T ; T: l E r | x"} {
		add("Deep", gram.Mk(s))
	}
	for i, g := range errFamily("quick") {
		if i < len(gram.ErrSeeds()) || (tier == "thorough" && i%5 == 0) {
			add("Err", g)
		}
	}
	for _, s := range []string{"E: E plus E | E times E | a", "S: i S | i S e S | a", "S: A | B ; A: a ; B: a"} {
		add("Auto", gram.Mk(s), "-a")
	}
	for _, g := range gram.L6() {
		if len(g.Alts) == 0 {
			add("L6", g)
		}
	}
	l2 := gram.L2(false)
	for i := 0; i < len(l2); i += len(l2) / 8 {
		add("L2", l2[i])
	}
	return items
}

func init() {
	checks["C16"] = func(tier string) int {
		t := gen.Build()
		r := ev.NewRun("C16", tier, "exploration")
		sw, done := newSweeper(t, "c16")
		defer done()
		items := reuseItems(sw, tier)
		c, err := corp.Build(t, sw.pool, "c16b", items)
		defer c.Close()
		if err != nil {
			ev.Inconsistent("layer-B corpus: %v", err)
		}
		for _, it := range c.Items {
			if !it.GenOK && !skipNotCompiling(it) {
				ev.Inconsistent("generation failed (exit %d): %s\n%s", it.Exit, it.Stdout, it.Text)
			}
		}
		n := 3
		opt := map[string]any{}
		if tier == "thorough" {
			n = 4
			opt["triples"] = true
		}
		driverLoop(c, r, "C16", "reuse", "reuse", n, opt, "histories")
		r.Add("evaluations", r.Get("lexer_histories"))
		r.Set("input_bound", n)
		r.Set("rule", "one parser object per history: every ordered pair (thorough: also triples) of token sequences up to the bound, the earlier calls succeeding, failing, recovering or aborted by an injected action error at the 1st/2nd action; the last call's result, error token, expected list, action calls and scan count must equal a fresh parser's; lexers: every byte string up to the bound, every number j of Scan calls before Reset, tokens AND positions must equal a fresh lexer's; distinct = (earlier outcomes > last outcome) classes per grammar")
		return r.Finish(nil)
	}
}
