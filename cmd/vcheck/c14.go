package main

import (
	"fmt"
	"os"
	"path/filepath"
	"sort"
	"strings"
	"sync"

	"verif/ev"
	"verif/gen"
	"verif/gram"
	"verif/ref"
)

// mutantClass decides, with the harness's own oracle, whether a mutant is ill-formed and why.
type classifiedMutant struct {
	Seed  string
	M     gram.Mutant
	Text  string
	Class string // "syntax", "symbols", "wellformed"
	Why   string
}

func specCFG() *ref.CFG {
	b, err := os.ReadFile(filepath.Join(gen.Repo, "spec", "gocc2.ebnf"))
	if err != nil {
		ev.Inconsistent("spec/gocc2.ebnf: %v", err)
	}
	g, err := gram.ReadSpec(string(b))
	if err != nil {
		ev.Inconsistent("spec reader: %v", err)
	}
	return ref.NewCFG(g)
}

func mutantSeeds(tier string) []gram.Seed {
	seeds := gram.Seeds()
	// keywords as string literals, some spelled like production / regular-definition names
	kw := gram.Seed{Name: "keywords", Text: "a : 'a' ;\n_d : '0'-'9' ;\n_exp : ( 'e' | 'E' ) [ '+' | '-' ] _d { _d } ;\nn : _d { _d } ;\nS : \"SELECT\" a \"FROM\" T | \"_x\" n | \"X\" ;\nT : a | T \"Comma\" a ;\n"}
	if tier != "thorough" {
		return append(append([]gram.Seed{}, seeds[:4]...), kw)
	}
	return append(append([]gram.Seed{}, seeds...), kw)
}

func classifyMutants(tier string) []classifiedMutant {
	spec := specCFG()
	var out []classifiedMutant
	for _, seed := range mutantSeeds(tier) {
		toks, err := gram.Lexemes(seed.Text)
		if err != nil {
			ev.Inconsistent("seed %s: %v", seed.Name, err)
		}
		if !spec.Accepts(gram.SpecTerminals(toks)) || len(gram.SymbolErrors(toks)) > 0 {
			ev.Inconsistent("seed %s is not well-formed by the harness's own oracle", seed.Name)
		}
		ms := gram.Mutants(toks)
		cs := make([]classifiedMutant, len(ms))
		gen.ParallelFor(len(ms), 0, func(i int) {
			m := ms[i]
			c := classifiedMutant{Seed: seed.Name, M: m, Text: gram.Canonical(m.Toks), Class: "wellformed"}
			if !spec.Accepts(gram.SpecTerminals(m.Toks)) {
				c.Class, c.Why = "syntax", "token sequence is not a sentence of spec/gocc2.ebnf"
			} else if se := gram.SymbolErrors(m.Toks); len(se) > 0 {
				c.Class, c.Why = "symbols", se[0]
			}
			cs[i] = c
		})
		out = append(out, cs...)
	}
	return out
}

// secondOrderMutants: every PAIR of edits of three tiny seeds (thorough tier of C14 only).
func secondOrderMutants() []classifiedMutant {
	spec := specCFG()
	var out []classifiedMutant
	// second order: every PAIR of edits (the single edits above applied to every single-edit mutant) of three tiny
	// seeds - a syntax-only grammar, one token, one token through a regular definition
	for _, seed := range []gram.Seed{gram.Seeds()[3], {Name: "tiny-token", Text: "t : 'a' ;\n"}, {Name: "tiny-regdef", Text: "_r : 'a' ;\nt : _r ;\n"}} {
		toks, err := gram.Lexemes(seed.Text)
		if err != nil || len(toks) > 12 {
			ev.Inconsistent("second-order seed %s: %v (%d tokens)", seed.Name, err, len(toks))
		}
		seen := map[string]bool{}
		var ms []gram.Mutant
		for _, m1 := range gram.Mutants(toks) {
			for _, m2 := range gram.Mutants(m1.Toks) {
				if m1.Kind == "badlex" || m2.Kind == "badlex" {
					continue // malformed lexemes are a first-order matter (one finding per lexeme, see below)
				}
				text := gram.Canonical(m2.Toks)
				if seen[text] {
					continue
				}
				seen[text] = true
				ms = append(ms, gram.Mutant{Kind: "pair", Desc: m1.Desc + ", then " + m2.Desc, Toks: m2.Toks, TouchesSDT: m1.TouchesSDT || m2.TouchesSDT})
			}
		}
		cs := make([]classifiedMutant, len(ms))
		gen.ParallelFor(len(ms), 0, func(i int) {
			m := ms[i]
			c := classifiedMutant{Seed: seed.Name, M: m, Text: gram.Canonical(m.Toks), Class: "wellformed"}
			if !spec.Accepts(gram.SpecTerminals(m.Toks)) {
				c.Class, c.Why = "syntax", "token sequence is not a sentence of spec/gocc2.ebnf"
			} else if se := gram.SymbolErrors(m.Toks); len(se) > 0 {
				c.Class, c.Why = "symbols", se[0]
			}
			cs[i] = c
		})
		out = append(out, cs...)
	}
	return out
}

func init() {
	checks["C14"] = func(tier string) int {
		t := gen.Build()
		r := ev.NewRun("C14", tier, "exploration")
		sw, done := newSweeper(t, "c14")
		defer done()
		muts := classifyMutants(tier)
		if tier == "thorough" {
			muts = append(muts, secondOrderMutants()...)
		}
		texts := make([]string, len(muts))
		for i, m := range muts {
			texts[i] = m.Text
		}
		var mu sync.Mutex
		badLex := map[string][]string{}
		// every mutant without flags of its own and with -no_lexer (checks that only happen as a side effect of
		// building the lexer must not be lost); the symbol-level mutants also with -zip and -v
		for _, flags := range [][]string{{"-a"}, {"-a", "-no_lexer"}, {"-a", "-zip", "-v"}} {
			flags := flags
			subset := muts
			subTexts := texts
			if len(flags) == 3 {
				subset, subTexts = nil, nil
				for i, m := range muts {
					if m.Class == "symbols" || i%9 == 0 {
						subset = append(subset, m)
						subTexts = append(subTexts, texts[i])
					}
				}
			}
			sw.run(subTexts, flags, false, false, func(o *GenOut) {
				m := subset[o.Idx]
				fl := strings.Join(flags[1:], " ")
				mu.Lock()
				defer mu.Unlock()
				r.Add("evaluations", 1)
				r.Add("mutants_"+m.M.Kind, 1)
				r.Add("class_"+m.Class, 1)
				if m.Class == "wellformed" {
					return
				}
				if o.Res.Exit == 0 && !o.Res.Hang && m.M.Kind == "badlex" {
					// one finding per malformed lexeme (not per place it was put): the front-end scanner counts lexical
					// errors and nobody looks at the count
					lex := m.M.Toks[badLexAt(m.M.Toks)].Text
					r.Add("accepted_illformed", 1)
					badLex[lex] = append(badLex[lex], fmt.Sprintf("seed %s, %s, flags [%s]", m.Seed, m.M.Desc, fl))
					return
				}
				if o.Res.Exit == 0 && !o.Res.Hang {
					r.Add("accepted_illformed", 1)
					r.Violate("c14", m.Seed+"/"+m.M.Desc+" "+fl, fmt.Sprintf("seed %s, %s, flags [%s]: %s, yet gocc exits with status 0\n  text: %s", m.Seed, m.M.Desc, fl, m.Why, oneLine(m.Text)),
						map[string]any{"seed": m.Seed, "mutation": m.M.Desc, "flags": flags, "text": m.Text, "why": m.Why, "stdout": o.Res.Stdout, "stderr": o.Res.Stderr})
					return
				}
				r.Add("rejected_illformed", 1)
				r.Distinct(m.Seed + "/" + m.M.Desc + " " + fl)
				if o.Idx%1501 == 11 {
					r.Sample(map[string]any{"seed": m.Seed, "mutation": m.M.Desc, "flags": fl, "class": m.Class, "why": m.Why, "exit": o.Res.Exit, "message": oneLine(o.Res.Stdout)})
				}
			})
		}
		var lexes []string
		for l := range badLex {
			lexes = append(lexes, l)
		}
		sort.Strings(lexes)
		for _, l := range lexes {
			r.Violate("c14", "malformed lexeme accepted: "+l, fmt.Sprintf("the malformed lexeme %s (not a literal by the lexical rules of spec/gocc2.ebnf) is accepted, gocc exits with status 0 in %d of the places it was put, e.g. %s", l, len(badLex[l]), badLex[l][0]),
				map[string]any{"lexeme": l, "places": badLex[l]})
		}
		sw.checkCross()
		r.Set("cli_cross_checked", sw.pool.CrossChecked.Load())
		r.Set("rule", "per seed grammar: every single token deleted, every token replaced by a representative of each other front-end token kind, every kind inserted at every gap, every use of a production / regular-definition name renamed to an undefined one, every lexical definition duplicated; ill-formedness is decided by the harness (Earley over spec/gocc2.ebnf read by an independent reader for the token level; three symbol-table rules); every ill-formed mutant must make the real generator exit non-zero, without flags, with -no_lexer, and (symbol-level mutants plus every ninth other) with -zip -v; distinct = ill-formed mutants rejected")
		r.Assumption("one-directional: mutants the oracle calls well-formed are not judged here (C09 takes them)")
		return r.Finish(nil)
	}
}

// badLexAt: index of the malformed lexeme in a "badlex" mutant.
func badLexAt(toks []gram.Tok) int {
	for i, t := range toks {
		if t.Kind == "junk" {
			return i
		}
	}
	return 0
}
