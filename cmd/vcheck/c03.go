package main

import (
	"encoding/json"
	"fmt"

	"verif/corp"
	"verif/drv"
	"verif/ev"
	"verif/gen"
	"verif/gram"
)

// conflictFreeRecs sweeps the syntax families and returns the grammars gocc reports conflict-free (no error alternatives).
func conflictFreeRecs(sw *sweeper, tier string) []*synRec {
	fams, all := synFamilies(tier)
	var out []*synRec
	for _, rec := range synSweep(sw, fams, all) {
		if !rec.G.HasError() && goccConflictFree(rec) && len(rec.Confl) == 0 {
			out = append(out, rec)
		}
	}
	return out
}

// driverLoop runs a driver task and folds its output into the run (shared by the layer-B-only checks).
func driverLoop(c *corp.Corpus, r *ev.Run, prop, kind, task string, n int, opt map[string]any, evalCounter string) {
	byItem := map[string]*corp.Item{}
	for _, it := range c.Items {
		byItem[it.ID] = it
	}
	err := c.Run(task, n, opt, 16, func(line []byte) {
		var o drv.Out
		if json.Unmarshal(line, &o) != nil {
			ev.Inconsistent("driver output: %s", line)
		}
		switch o.Kind {
		case "inconsistent":
			ev.Inconsistent("driver: item %s: %s\n%s", o.Item, o.What, byItem[o.Item].Text)
		case "violation":
			if o.Prop == prop {
				r.Violate(kind, o.Key, o.What+"\n  grammar: "+oneLine(byItem[o.Item].Text)+" flags "+fmt.Sprint(byItem[o.Item].Flags), o.Case)
			} else {
				fmt.Printf("NOTE: %s violation seen while checking %s: %s\n", o.Prop, prop, o.What)
			}
		case "stats":
			r.Add("items_driven", 1)
			for k, v := range o.Counters {
				if k == evalCounter {
					r.Add("evaluations", v)
				}
				r.Add(k, v)
			}
			for _, d := range o.Distinct {
				r.Distinct(o.Item + d)
			}
			for _, s := range o.Samples {
				r.Sample(s)
			}
		}
	})
	if err != nil {
		driverFailed(r, prop, kind, c, err)
	}
}

// driverFailed: a driver shard died. If the fatal error's stack passes through the generated package of the grammar
// it was exploring, that is a finding about the generated code (it must never bring the process down); anything
// else is a harness problem.
func driverFailed(r *ev.Run, prop, kind string, c *corp.Corpus, err error) {
	ce, ok := err.(*corp.CrashError)
	if !ok || !ce.InGenerated() {
		ev.Inconsistent("%v", err)
	}
	text := ""
	for _, it := range c.Items {
		if it.ID == ce.Item() {
			text = it.Text
		}
	}
	r.Violate(kind, "crash "+ce.Item(), fmt.Sprintf("the generated code of this grammar crashed the driving process (fatal error inside the generated package): %s\n  grammar: %s", oneLine(ce.Summary())[:min(600, len(oneLine(ce.Summary())))], oneLine(text)),
		map[string]any{"grammar": text, "stderr": ce.Summary()})
}

func init() {
	checks["C03"] = func(tier string) int {
		t := gen.Build()
		r := ev.NewRun("C03", tier, "exploration")
		sw, done := newSweeper(t, "c03")
		defer done()
		budget := 30
		if tier == "thorough" {
			budget = 200
		}
		all := conflictFreeRecs(sw, tier)
		sel := selectSyn(all, func(rec *synRec) *GenOut { return rec.Plain }, budget)
		// bodies of ten or more symbols (attribute indices with two digits) are always included
		inSel := map[*synRec]bool{}
		for _, r := range sel {
			inSel[r] = true
		}
		for _, rec := range all {
			for _, a := range rec.G.Alts {
				if len(a.Body) >= 10 && !inSel[rec] {
					inSel[rec] = true
					sel = append(sel, rec)
				}
			}
		}
		var items []*corp.Item
		for ri, rec := range sel {
			modes := []string{"explicit", "token", "none", "mixed"}
			if ri%4 == 0 || len(rec.G.Alts) >= 10 {
				// action text fidelity: literals with blanks, tabs, verbs, template syntax inside the action
				modes = append(modes, "literal")
			}
			for _, mode := range modes {
				g, tokImp := gram.WithActions(rec.G, mode)
				it := corp.NewItem("Act-"+mode, g)
				it.TokImp = tokImp
				for _, a := range g.Alts {
					if a.Action != "" {
						it.RtImp = true
					}
				}
				items = append(items, it)
			}
		}
		c, err := corp.Build(t, sw.pool, "c03b", items)
		defer c.Close()
		if err != nil {
			ev.Inconsistent("layer-B corpus: %v", err)
		}
		for _, it := range c.Items {
			if !it.GenOK && !skipNotCompiling(it) {
				ev.Inconsistent("generation failed (exit %d): %s\n%s", it.Exit, it.Stdout, it.Text)
			}
		}
		n := 5
		if tier == "thorough" {
			n = 7
		}
		driverLoop(c, r, "C03", "actions", "actions", n, nil, "parses")
		// the error clause also on grammars with error alternatives (recovery must not swallow an action's error)
		var eitems []*corp.Item
		for i, g := range errFamily("quick") {
			if i < len(gram.ErrSeeds()) || (tier == "thorough" && i%4 == 0) {
				it := corp.NewItem("Err", gram.WithRecActions(g))
				it.RtImp = true
				eitems = append(eitems, it)
			}
		}
		ec, err := corp.Build(t, sw.pool, "c03e", eitems)
		defer ec.Close()
		if err != nil {
			ev.Inconsistent("layer-B corpus: %v", err)
		}
		driverLoop(ec, r, "C03", "actions", "recover", n-1, map[string]any{"inject": true}, "injected_failures")
		r.Set("error_alternative_grammars", len(eitems))
		r.Set("base_grammars", len(sel))
		r.Set("sequence_bound", n)
		r.Set("rule", "compiled unmodified parsers of conflict-free base grammars x four action assignments (explicit $i, $Ti on terminals, none = defaults, mixed) plus, for a quarter of the grammars, actions carrying a Go literal (blanks, TAB, line break in a raw string, format verbs, template syntax, quotes, non-ASCII) whose value must reach the generated code unaltered : every sentence up to the bound, under three Context values (recorder, nil, a second object): action-call log (alternative, arguments, token POINTER identity) and result against post-order evaluation of the parse tree; then every choice of which action occurrence fails: Parse must return an error carrying it, exactly that many actions ran, no Scan afterwards - this error clause also on grammars WITH error alternatives, over every token sequence (not only sentences); distinct = (grammar, call sequence, result)")
		return r.Finish(nil)
	}
}
