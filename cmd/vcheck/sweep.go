package main

import (
	"fmt"
	"os"
	"path/filepath"
	"sync"
	"syscall"

	"verif/corp"
	"verif/gen"
	"verif/gram"
)

// GenOut is the outcome of one generator run on a grammar of a family.
type GenOut struct {
	Idx     int
	G       *gram.Grammar
	Text    string
	Args    []string
	Res     gen.Result
	Lex     *gen.LexTables
	Tok     *gen.TokenMap
	Par     *gen.ParserTables
	ReadErr string
	Dir     string // job directory (removed after the callback unless keep)
}

type sweeper struct {
	t    *gen.Tools
	pool *gen.Pool
	root string
	mu   sync.Mutex
	n    int
}

func newSweeper(t *gen.Tools, tag string) (*sweeper, func()) {
	root, cleanup := gen.Scratch(tag)
	os.WriteFile(filepath.Join(root, "go.mod"), []byte("module vt\n\ngo 1.24\n"), 0o666)
	p := t.NewPool(0)
	p.CrossEvery = 97
	return &sweeper{t: t, pool: p, root: root}, func() { p.Close(); cleanup() }
}

// run generates every text with the given flags (the -o directory is always "o") and calls f (concurrently).
func (s *sweeper) run(texts []string, flags []string, wantLex, wantPar bool, f func(o *GenOut)) {
	s.runOpt(texts, flags, wantLex, wantPar, f)
}

// runKeep is run for callbacks that keep the GenOut (tables already read; the directory is removed all the same).
func (s *sweeper) runKeep(texts []string, flags []string, wantLex, wantPar bool, f func(o *GenOut)) {
	s.runOpt(texts, flags, wantLex, wantPar, f)
}

func (s *sweeper) runOpt(texts []string, flags []string, wantLex, wantPar bool, f func(o *GenOut)) {
	s.mu.Lock()
	base := s.n
	s.n += len(texts)
	s.mu.Unlock()
	gen.ParallelFor(len(texts), 0, func(i int) {
		// every job gets its own module root and the same relative directory, so that the import paths embedded in
		// the emitted files are identical across jobs (byte comparisons between runs rely on it)
		jroot := filepath.Join(s.root, fmt.Sprintf("r%d", base+i))
		dir := filepath.Join(jroot, "w")
		os.MkdirAll(dir, 0o777)
		os.WriteFile(filepath.Join(jroot, "go.mod"), []byte("module vt\n\ngo 1.24\n"), 0o666)
		os.WriteFile(filepath.Join(dir, "g.bnf"), []byte(texts[i]), 0o666)
		args := append(append([]string{}, flags...), "-o", "o", "g.bnf")
		o := &GenOut{Idx: i, Text: texts[i], Args: args, Dir: dir}
		o.Res = s.pool.Run(gen.Job{Dir: dir, Args: args})
		if o.Res.Exit == 0 && !o.Res.Hang {
			var err error
			od := filepath.Join(dir, "o")
			if o.Tok, err = gen.ReadTokenMap(od); err != nil {
				o.ReadErr = err.Error()
			}
			if wantLex && o.ReadErr == "" {
				if o.Lex, err = gen.ReadLexTables(od); err != nil {
					o.ReadErr = err.Error()
				}
			}
			if wantPar && o.ReadErr == "" {
				if o.Par, err = gen.ReadParserTables(od); err != nil {
					o.ReadErr = err.Error()
				}
			}
		}
		f(o)
		os.RemoveAll(jroot)
	})
}

func (s *sweeper) checkCross() {
	if len(s.pool.Mismatch) > 0 && os.Getenv("VERIF_CLI_ONLY") == "" {
		// the in-process job server and the real CLI disagree: the generator keeps state between runs inside one
		// process (a package-level cache, say). Everything computed so far is discarded and the whole check starts
		// again with one real CLI process per run.
		fmt.Println("NOTE: in-process generator and real CLI disagree (" + s.pool.Mismatch[0] + "); restarting this check with one CLI process per run")
		s.pool.Close()
		os.RemoveAll(s.root)
		env := append(os.Environ(), "VERIF_CLI_ONLY=1")
		if err := syscall.Exec(selfPath(), os.Args, env); err != nil {
			fmt.Fprintln(os.Stderr, "HARNESS-INCONSISTENT: cannot re-exec:", err)
			os.Exit(3)
		}
	}
	if len(s.pool.Mismatch) > 0 {
		fmt.Fprintln(os.Stderr, "HARNESS-INCONSISTENT: in-process generator and real CLI disagree:")
		for _, m := range s.pool.Mismatch {
			fmt.Fprintln(os.Stderr, "  ", m)
		}
		os.Exit(3)
	}
}

// runMD runs one markdown input (file name g.md); the caller removes filepath.Dir(o.Dir).
func (s *sweeper) runMD(md string, flags []string) *GenOut {
	s.mu.Lock()
	k := s.n
	s.n++
	s.mu.Unlock()
	jroot := filepath.Join(s.root, fmt.Sprintf("r%d", k))
	dir := filepath.Join(jroot, "w")
	os.MkdirAll(dir, 0o777)
	os.WriteFile(filepath.Join(jroot, "go.mod"), []byte("module vt\n\ngo 1.24\n"), 0o666)
	os.WriteFile(filepath.Join(dir, "g.md"), []byte(md), 0o666)
	args := append(append([]string{}, flags...), "-o", "o", "g.md")
	o := &GenOut{Text: md, Args: args, Dir: dir}
	o.Res = s.pool.Run(gen.Job{Dir: dir, Args: args})
	return o
}

// skipNotCompiling: the item was generated with exit status 0 but its packages do not compile. That is C09's
// subject; the check at hand goes on without it and says so.
func skipNotCompiling(it *corp.Item) bool {
	if it.CompileErr == "" {
		return false
	}
	fmt.Printf("NOTE: generated code of a corpus grammar does not compile and is left out (C09's subject): %s\n  grammar: %s flags %v\n", it.CompileErr, oneLine(it.Text), it.Flags)
	return true
}

func selfPath() string {
	if p, err := os.Executable(); err == nil {
		return p
	}
	return os.Args[0]
}
