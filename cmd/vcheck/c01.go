package main

import (
	"encoding/json"
	"fmt"
	"sort"
	"strings"
	"sync"

	"verif/corp"
	"verif/drv"
	"verif/ev"
	"verif/gen"
	"verif/gram"
	"verif/mc"
	"verif/ref"
)

func lexFamilies(tier string) ([]string, map[string][]*gram.Grammar) {
	th := tier == "thorough"
	n9 := 5
	if th {
		n9 = 6
	}
	return []string{"L1", "L2", "L3", "L4", "L5", "L6", "L7", "L8", "L9", "L10"}, map[string][]*gram.Grammar{"L1": gram.L1(th), "L2": gram.L2(th), "L3": gram.L3(th), "L4": gram.L4(), "L5": gram.L5(), "L6": gram.L6(), "L7": gram.L7(), "L8": realLexGrammars(), "L9": gram.L9(n9), "L10": gram.L10()}
}

func strLits(g *gram.Grammar) []string {
	var out []string
	seen := map[string]bool{}
	for _, a := range g.Alts {
		for _, s := range a.Body {
			if s.Str && !seen[s.Name] {
				seen[s.Name] = true
				out = append(out, s.Name)
			}
		}
	}
	return out
}

type lexLead struct {
	Fam     string
	G       *gram.Grammar
	What    string
	Witness []rune
}

// lexSweep runs layer A over all lexical families: product of the emitted DFA with R-lex to closure.
// Returns the leads (structural mismatches, to be confirmed on compiled code) and, per family, the
// grammars ordered by size with a signature of their emitted tables (for the layer-B selection).
type lexSel struct {
	g   *gram.Grammar
	sig string
}

func lexSweep(sw *sweeper, r *ev.Run, tier string, count bool) (leads []lexLead, sel map[string][]lexSel, order []string) {
	var mu sync.Mutex
	order, fams := lexFamilies(tier)
	sel = map[string][]lexSel{}
	for _, fam := range order {
		gs := fams[fam]
		texts := make([]string, len(gs))
		for i, g := range gs {
			texts[i] = g.Text()
		}
		sigs := make([]string, len(gs))
		sw.run(texts, nil, true, false, func(o *GenOut) {
			g := gs[o.Idx]
			if count {
				r.Add("grammars_"+fam, 1)
				r.Add("grammars", 1)
			}
			lead := func(what string, w []rune) {
				mu.Lock()
				leads = append(leads, lexLead{fam, g, what, w})
				mu.Unlock()
				sigs[o.Idx] = "lead"
			}
			if o.Res.Hang || o.Res.Exit != 0 {
				lead(fmt.Sprintf("gocc exit=%d hang=%v: %s %s", o.Res.Exit, o.Res.Hang, o.Res.Stdout, o.Res.Stderr), nil)
				return
			}
			if o.ReadErr != "" {
				lead("unreadable output: "+o.ReadErr, nil)
				return
			}
			lr, err := ref.NewLexRef(g.Lex, strLits(g))
			if err != nil {
				ev.Inconsistent("family grammar rejected by the reference: %v\n%s", err, o.Text)
			}
			if msg := mc.PartitionCheck(o.Lex); msg != "" && count {
				r.Add("partition_failures", 1)
			}
			res := mc.LexProduct(o.Lex, o.Tok.TypeMap, lr, false)
			if count {
				r.Add("states", int64(res.States))
				r.Add("transitions", int64(res.Transitions))
			}
			if res.Mismatch != "" {
				lead(res.Mismatch, res.Witness)
				return
			}
			b, _ := json.Marshal(o.Lex)
			sigs[o.Idx] = string(b)
			if count {
				r.Distinct(fmt.Sprintf("%s/%d/%d", g.ID(), len(o.Lex.States), res.States))
				if o.Idx%700 == 7 {
					r.Sample(map[string]any{"family": fam, "grammar": o.Text, "product_states": res.States, "emitted_states": len(o.Lex.States)})
				}
			}
		})
		for i, g := range gs {
			sel[fam] = append(sel[fam], lexSel{g, sigs[i]})
		}
	}
	sw.checkCross()
	sort.SliceStable(leads, func(i, j int) bool {
		a, b := leads[i].G.Text(), leads[j].G.Text()
		if len(a) != len(b) {
			return len(a) < len(b)
		}
		return a < b
	})
	return
}

// selectLexCorpus picks, per family, the smallest grammars with pairwise distinct emitted tables, up to a budget.
func selectLexCorpus(sel map[string][]lexSel, order []string, leads []lexLead, tier string) []*corp.Item {
	budget := map[string]int{"L1": 30, "L2": 40, "L3": 12, "L4": 18, "L5": 33, "L6": 20, "L7": 6, "L8": 4, "L9": 6, "L10": 6}
	maxLeads := 12
	if tier == "thorough" {
		budget = map[string]int{"L1": 220, "L2": 260, "L3": 60, "L4": 18, "L5": 33, "L6": 20, "L7": 15, "L8": 14, "L9": 30, "L10": 20}
		maxLeads = 40
	}
	var items []*corp.Item
	for _, fam := range order {
		ss := append([]lexSel(nil), sel[fam]...)
		sort.SliceStable(ss, func(i, j int) bool {
			a, b := ss[i].g.Text(), ss[j].g.Text()
			if len(a) != len(b) {
				return len(a) < len(b)
			}
			return a < b
		})
		seen := map[string]bool{}
		n := 0
		// spread: take smallest first but skip ahead so that larger shapes are represented too
		stride := 1
		if len(ss) > 8*budget[fam] {
			stride = len(ss) / (4 * budget[fam])
		}
		for i := 0; i < len(ss) && n < budget[fam]; i++ {
			if i > budget[fam]/2 && i%stride != 0 {
				continue
			}
			s := ss[i]
			if s.sig == "" || s.sig == "lead" || seen[s.sig] {
				continue
			}
			seen[s.sig] = true
			items = append(items, corp.NewItem(fam, s.g))
			n++
		}
	}
	nReg, nOther := 0, 0
	for _, l := range leads {
		// separate budgets so that the known regular-definition defect cannot crowd out other leads
		if l.G.HasRegDefs() && l.G.SharingSensitive() {
			if nReg++; nReg > maxLeads {
				continue
			}
		} else if nOther++; nOther > maxLeads {
			continue
		}
		it := corp.NewItem(l.Fam, l.G)
		it.Extra = map[string]any{"lead": l.What, "witness": string(l.Witness)}
		items = append(items, it)
	}
	return items
}

// regdefRule implements the attribution rule "regdef-sharing": the violation disappears when every
// regular-definition reference is replaced by a parenthesised copy of its body and gocc is re-run.
func regdefRule(sw *sweeper, g *gram.Grammar) bool {
	// only definitions that are multi-character or nullable can expose the sharing of one item set between call
	// sites; a violation in a grammar whose definitions are all single-character classes is something else
	if g == nil || !g.HasRegDefs() || !g.SharingSensitive() {
		return false
	}
	in := gram.InlineRegDefs(g)
	ok := false
	sw.run([]string{in.Text()}, nil, true, false, func(o *GenOut) {
		if o.Res.Exit != 0 || o.Res.Hang || o.ReadErr != "" {
			return
		}
		lr, err := ref.NewLexRef(in.Lex, strLits(in))
		if err != nil {
			return
		}
		ok = mc.LexProduct(o.Lex, o.Tok.TypeMap, lr, false).Mismatch == ""
	})
	return ok
}

// runLexCheck is shared by C01 (tokens) and C08 (positions): layer A sweep, layer B exhaustive scan.
func runLexCheck(prop, tier string) int {
	t := gen.Build()
	level := "model_checking"
	if prop == "C08" {
		level = "exploration"
	}
	r := ev.NewRun(prop, tier, level)
	sw, done := newSweeper(t, strings.ToLower(prop))
	defer done()
	leads, sel, order := lexSweep(sw, r, tier, prop == "C01")
	items := selectLexCorpus(sel, order, leads, tier)
	c, err := corp.Build(t, sw.pool, strings.ToLower(prop)+"b", items)
	defer c.Close()
	if err != nil {
		// emitted code that does not compile is C09's subject; here it makes the check inconclusive
		ev.Inconsistent("layer-B corpus: %v", err)
	}
	n := 4
	alpha := 8
	if tier == "thorough" {
		n = 6
	}
	grams := map[string]*gram.Grammar{}
	byItem := map[string]*corp.Item{}
	for _, it := range c.Items {
		byItem[it.ID] = it
	}
	confirmed := map[string]bool{}
	err = c.Run("lex", n, map[string]any{"alphabet": alpha}, 16, func(line []byte) {
		var o drv.Out
		if json.Unmarshal(line, &o) != nil {
			ev.Inconsistent("driver output: %s", line)
		}
		switch o.Kind {
		case "inconsistent":
			ev.Inconsistent("driver: item %s: %s\n%s", o.Item, o.What, byItem[o.Item].Text)
		case "violation":
			confirmed[o.Item] = true
			if o.Prop == prop {
				grams[o.Key] = byItem[o.Item].G
				r.Violate("lex", o.Key, o.What+"\n  grammar: "+strings.ReplaceAll(strings.TrimSpace(byItem[o.Item].Text), "\n", " "), o.Case)
			}
		case "stats":
			for k, v := range o.Counters {
				switch k {
				case "inputs":
					r.Add("evaluations", v)
					r.Add("inputs_scanned", v)
				case "traces_replayed":
					r.Add("traces_validated_against_impl", v)
				default:
					r.Add(k, v)
				}
			}
			r.Add("lexers_compiled", 1)
			if prop == "C08" {
				for _, d := range o.Distinct {
					r.Distinct(o.Item + d)
				}
			}
			for _, s := range o.Samples {
				if prop == "C08" || len(o.Samples) > 0 {
					r.Sample(s)
				}
			}
		}
	})
	if err != nil {
		driverFailed(r, prop, "lex", c, err)
	}
	// leads that the compiled code did not confirm are reported, never as violations
	unconfirmed := 0
	for _, it := range c.Items {
		if it.Extra != nil && !confirmed[it.ID] {
			unconfirmed++
			fmt.Printf("NOTE: structural mismatch not confirmed on compiled code (no violation reported): %s\n  %s\n", it.Extra["lead"], strings.TrimSpace(it.Text))
		}
	}
	r.Set("leads_from_table_level", len(leads))
	r.Set("leads_compiled", len(items)-countNoExtra(items))
	r.Set("leads_unconfirmed", unconfirmed)
	r.Set("cli_cross_checked", sw.pool.CrossChecked.Load())
	r.Set("generator_runs", sw.pool.Jobs.Load())
	r.Set("input_length_bound", n)
	if prop == "C01" {
		r.Set("rule", "layer A: per grammar of families L1-L10 (L7: wide patterns, L8: the lexical parts of the grammars shipped with the repository, read by an independent reader, L9: every ordered triple of ranges over five (thorough: six) points, L10: L5/L6 with every character literal spelled octal, \\x, \\u, \\U or raw), BFS to closure of the product (emitted DFA state, reference position-automaton state), one transition per cell of the common refinement of all class boundaries (covers every Unicode scalar value, strings of every length); layer B: compiled unmodified lexers driven with every byte string up to the bound over a per-grammar alphabet (class representatives, newline, tab, multi-byte, ill-formed bytes) and one witness per product state, against the reference tokenizer; distinct = grammars whose product closed")
	} else {
		r.Set("rule", "compiled unmodified lexers (selection of families L1-L10, distinct emitted tables), every byte string up to the bound over a per-grammar alphabet that always contains newline, tab, a multi-byte rune and an ill-formed byte: offset/line/column/literal of every token incl. INVALID, EOF and two post-EOF calls against the reference tokenizer; distinct = (lexer, token-kind/position vector) classes with at least one real token and an INVALID or skipped lexeme")
	}
	r.Assumption("regular definitions are read as macros; recursive regular definitions are outside the families")
	r.Assumption("behaviour is invariant under order-preserving renaming of runes, so 2-3 letters plus UTF-8 boundary code points reach every comparison in the generator")
	code := r.Finish(func(rule string, v ev.Violation) bool {
		if rule == "regdef-sharing" {
			return regdefRule(sw, grams[v.Key])
		}
		return false
	})
	return code
}

func countNoExtra(items []*corp.Item) int {
	n := 0
	for _, it := range items {
		if it.Extra == nil {
			n++
		}
	}
	return n
}

func init() {
	checks["C01"] = func(tier string) int { return runLexCheck("C01", tier) }
	checks["C08"] = func(tier string) int { return runLexCheck("C08", tier) }
}
