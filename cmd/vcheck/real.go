package main

import (
	"os"
	"path/filepath"
	"sort"

	"verif/gen"
	"verif/gram"
)

// realGrammars reads the grammars shipped with the repository under test (example/, spec/, internal/test/) into the
// checker's AST with the checker's own reader: realistic sizes (dozens to hundreds of lexer and parser states,
// two-digit and three-digit state and production numbers) next to the enumerated families. Files the AST cannot
// express are skipped.
func realGrammars() []*gram.Grammar {
	var fs []string
	for _, pat := range []string{"example/*/*.bnf", "spec/*.ebnf", "spec/*.bnf", "internal/test/*/*.bnf"} {
		m, _ := filepath.Glob(filepath.Join(gen.Repo, pat))
		fs = append(fs, m...)
	}
	sort.Strings(fs)
	var out []*gram.Grammar
	for _, f := range fs {
		b, err := os.ReadFile(f)
		if err != nil {
			continue
		}
		g, err := gram.ReadGrammar(string(b))
		if err != nil || (len(g.Lex) == 0 && len(g.Alts) == 0) {
			continue
		}
		out = append(out, g)
	}
	return out
}

// realLexGrammars: the lexical parts of realGrammars; the string literals of the syntax part, which are tokens too,
// are kept through one production listing them.
func realLexGrammars() []*gram.Grammar {
	var out []*gram.Grammar
	for _, g := range realGrammars() {
		l := &gram.Grammar{Lex: g.Lex}
		for _, s := range strLits(g) {
			l.Alts = append(l.Alts, gram.Alt{Head: "Lits", Body: []gram.Sym{{Name: s, Str: true}}})
		}
		if len(l.Lex) == 0 && len(l.Alts) == 0 {
			continue
		}
		out = append(out, l)
	}
	return out
}

// realSynGrammars: realGrammars with a syntax part. String literals spelled like gocc's reserved words (spec/gocc2.ebnf
// writes "error" and "empty" for its own keywords; gocc reads such a literal as the error symbol resp. as the empty
// body, DESIGN section 5) are respelled: what is wanted here is the size and shape of the grammar.
func realSynGrammars() []*gram.Grammar {
	var out []*gram.Grammar
	for _, g := range realGrammars() {
		if len(g.Alts) == 0 {
			continue
		}
		for i := range g.Alts {
			for j, s := range g.Alts[i].Body {
				if s.Str && (s.Name == "error" || s.Name == "empty" || s.Name == "INVALID" || s.Name == "\u241a") {
					g.Alts[i].Body[j].Name = s.Name + "_kw"
				}
			}
		}
		out = append(out, g)
	}
	return out
}
