package main

import (
	"fmt"
	"strings"
	"sync"
	"unicode/utf8"

	"verif/corp"
	"verif/ev"
	"verif/gen"
	"verif/gram"
)

// terminalsOf derives, from the harness's own tokenization of a grammar text, the terminals the token package must
// number: named tokens defined in the lexical part, token names used in syntax bodies, string literals (by content).
func terminalsOf(text string) (terms []string, strlits []string, err error) {
	toks, err := gram.Lexemes(text)
	if err != nil {
		return nil, nil, err
	}
	seen := map[string]bool{}
	add := func(n string) {
		if !seen[n] {
			seen[n] = true
			terms = append(terms, n)
		}
	}
	inSyntax := false
	for i, t := range toks {
		head := i+1 < len(toks) && toks[i+1].Kind == ":"
		if head {
			inSyntax = t.Kind == "prodId"
			if t.Kind == "tokId" {
				add(t.Text)
			}
			continue
		}
		if !inSyntax {
			continue
		}
		switch t.Kind {
		case "tokId":
			if t.Text != "empty" && t.Text != "error" {
				add(t.Text)
			}
		case "string_lit":
			c := t.Text[1 : len(t.Text)-1]
			add(c)
			strlits = append(strlits, c)
		}
	}
	return
}

// tokenMapProblems checks the read-back token.go: INVALID 0, end of input 1, no duplicates, idMap exactly the inverse
// of typeMap, exactly the grammar's terminals (plus the pseudo symbols empty/error) numbered consecutively.
func tokenMapProblems(tm *gen.TokenMap, terms []string) []string {
	var out []string
	if tm.Empty {
		return []string{"token.go is empty"}
	}
	if len(tm.IdBad) > 0 {
		out = append(out, fmt.Sprintf("idMap entries that are not valid Go: %v", tm.IdBad))
	}
	if len(tm.TypeMap) < 2 || tm.TypeMap[0] != "INVALID" || tm.TypeMap[1] != "␚" {
		return append(out, fmt.Sprintf("typeMap does not start with INVALID, end-of-input: %q", tm.TypeMap))
	}
	num := map[string]int{}
	for i, n := range tm.TypeMap {
		if j, dup := num[n]; dup {
			out = append(out, fmt.Sprintf("terminal %q numbered twice (%d and %d)", n, j, i))
		}
		num[n] = i
	}
	if len(tm.IdKeys) != len(tm.TypeMap) {
		out = append(out, fmt.Sprintf("idMap has %d entries, typeMap %d", len(tm.IdKeys), len(tm.TypeMap)))
	}
	for i, k := range tm.IdKeys {
		if v := tm.IdVals[i]; v < 0 || v >= len(tm.TypeMap) || tm.TypeMap[v] != k {
			out = append(out, fmt.Sprintf("idMap[%q] = %d but typeMap[%d] is not %q", k, v, v, k))
		}
	}
	want := map[string]bool{}
	for _, t := range terms {
		want[t] = true
		if _, ok := num[t]; !ok {
			out = append(out, fmt.Sprintf("terminal %q has no number", t))
		}
	}
	for _, n := range tm.TypeMap[2:] {
		if !want[n] && n != "empty" && n != "error" {
			out = append(out, fmt.Sprintf("number assigned to %q which is not a terminal of the grammar", n))
		}
	}
	return out
}

func init() {
	checks["C10"] = func(tier string) int {
		t := gen.Build()
		r := ev.NewRun("C10", tier, "exploration")
		sw, done := newSweeper(t, "c10")
		defer done()
		type tcase struct{ name, text string }
		var cases []tcase
		for _, s := range gram.HostileSeeds() {
			cases = append(cases, tcase{s.Name, s.Text})
		}
		for _, s := range gram.Seeds() {
			cases = append(cases, tcase{"seed-" + s.Name, s.Text})
		}
		for i, g := range gram.S2() {
			cases = append(cases, tcase{fmt.Sprint("S2-", i), g.Text()})
		}
		for i, g := range gram.L4() {
			cases = append(cases, tcase{fmt.Sprint("L4-", i), g.Text()})
		}
		// tokens declared in the lexical part that no syntax rule mentions (numbered after the syntax terminals)
		cases = append(cases, tcase{"unused-tokens", "zz : 'z' ;\naa : 'a' ;\n!ws : ' ' ;\nmid : 'm' ;\nS : mid S | \"x\" ;\n"},
			tcase{"lexer-only", "zz : 'z' ;\naa : 'a' ;\n!ws : ' ' ;\n"})
		// more than 255 terminals (numbers that no longer fit one byte)
		cases = append(cases, tcase{"seed-big300", gram.S6()[0].Text()})
		s1 := gram.S1(3, false)
		stride := 40
		if tier == "thorough" {
			stride = 3
		}
		for i := 0; i < len(s1); i += stride {
			cases = append(cases, tcase{fmt.Sprint("S1-", i), s1[i].Text()})
		}
		for i, g := range errFamily("quick") {
			if i%10 == 0 {
				cases = append(cases, tcase{fmt.Sprint("Err-", i), g.Text()})
			}
		}
		var mu sync.Mutex
		texts := make([]string, len(cases))
		for i, c := range cases {
			texts[i] = c.text
		}
		for _, flags := range [][]string{{"-a"}, {"-a", "-no_lexer"}, {"-a", "-zip"}, {"-a", "-v"}, {"-a", "-debug_lexer", "-debug_parser"}} {
			sw.run(texts, flags, false, false, func(o *GenOut) {
				c := cases[o.Idx]
				mu.Lock()
				defer mu.Unlock()
				r.Add("evaluations", 1)
				if o.Res.Exit != 0 || o.Res.Hang {
					r.Add("refused", 1)
					return
				}
				terms, _, err := terminalsOf(c.text)
				if err != nil {
					ev.Inconsistent("case %s does not tokenize: %v", c.name, err)
				}
				if o.ReadErr != "" || o.Tok == nil {
					ev.Inconsistent("table reader cannot read token.go of %s %v: %s", c.name, flags, o.ReadErr)
				}
				for _, p := range tokenMapProblems(o.Tok, terms) {
					r.Violate("c10", c.name+strings.Join(flags, " ")+p, fmt.Sprintf("%s %v: %s\n  text: %s", c.name, flags, p, oneLine(c.text)), map[string]any{"text": c.text, "flags": flags, "problem": p})
				}
				r.Add("token_maps_checked", 1)
				r.Distinct(c.name + strings.Join(flags, " "))
			})
		}
		sw.checkCross()
		// (B) compiled token packages and lexers of the hostile spellings
		var items []*corp.Item
		for _, c := range cases {
			if !(strings.HasPrefix(c.name, "strlit") || strings.HasPrefix(c.name, "tokname") || strings.HasPrefix(c.name, "seed") || strings.HasPrefix(c.name, "L4")) {
				continue
			}
			terms, lits, _ := terminalsOf(c.text)
			it := corp.NewTextItem("Host", c.text, "-a")
			// names travel to the driver as JSON: those that are not valid UTF-8 would arrive changed and are left to
			// the table-level comparison above
			terms, lits = validUTF8Only(terms), validUTF8Only(lits)
			it.Extra = map[string]any{"terminals": terms, "strlits": lits, "name": c.name}
			items = append(items, it)
			if c.name == "seed-big300" {
				// more than 255 terminals: one sentence per keyword through the generated lexer AND parser, plain and
				// with encoded tables (the numbers the lexer emits must be the parser's columns)
				var sents []string
				for i := 1; i <= 300; i++ {
					sents = append(sents, fmt.Sprintf("k%03d1;", i))
				}
				it.Extra["sentences"] = sents
				z := corp.NewTextItem("Host", c.text, "-a", "-zip")
				z.Extra = map[string]any{"terminals": terms, "strlits": lits, "name": c.name + "-zip", "sentences": sents}
				items = append(items, z)
			}
		}
		c, err := corp.Build(t, sw.pool, "c10b", items)
		defer c.Close()
		if err != nil {
			ev.Inconsistent("layer-B corpus: %v", err)
		}
		driverLoop(c, r, "C10", "tokmap", "tokmap", 0, nil, "lookups")
		r.Set("compiled_token_packages", c.Pkgs)
		r.Set("rule", "(A) hostile spellings (token/production names, string literals over all ASCII punctuation and awkward sequences), seeds, S2, L4, S1 and ErrFam picks x {default, -no_lexer, -zip, -v, debug flags}: token.go read back: INVALID 0, end-of-input 1, no duplicates, idMap exactly the inverse of typeMap as Go strings, exactly the grammar's terminals numbered consecutively (terminals derived by the harness's own tokenizer); the lexer's Accept numbers and the parser's columns are addressed through these names by the C01/C02/C05 products; (B) compiled: Type(Id(i)) = i, Id(Type(n)) = n, unknown names -> INVALID, scanning each string-literal terminal's lexeme yields its number; distinct = (case, flags) and terminal names looked up")
		return r.Finish(nil)
	}
}

func validUTF8Only(in []string) []string {
	var out []string
	for _, s := range in {
		if utf8.ValidString(s) {
			out = append(out, s)
		}
	}
	return out
}
