package main

import (
	"bytes"
	"encoding/json"
	"fmt"
	"os"
	"os/exec"
	"strconv"
	"sync"
	"verif/mc"
	"verif/ref"

	"verif/ev"
	"verif/gen"
)

func runBatch(t *gen.Tools, args ...string) ([]byte, error) {
	cmd := exec.Command(t.Batch, args...)
	var out, errb bytes.Buffer
	cmd.Stdout, cmd.Stderr = &out, &errb
	err := cmd.Run()
	if err != nil {
		return out.Bytes(), fmt.Errorf("%v: %s", err, errb.String())
	}
	return out.Bytes(), nil
}

func init() {
	checks["C18"] = func(tier string) int {
		t := gen.Build()
		r := ev.NewRun("C18", tier, "model_checking")
		K := 7
		if tier == "thorough" {
			K = 10
		}
		out, err := runBatch(t, "c18", strconv.Itoa(K))
		if err != nil {
			ev.Inconsistent("c18 explorer failed: %v", err)
		}
		var o struct {
			States, Transitions, MaxDepth, Universe, Replayed, NoopChecked int
			Violations, Samples                                            []map[string]any
		}
		o2 := map[string]any{}
		if err := json.Unmarshal(out, &o2); err != nil {
			ev.Inconsistent("c18 output: %v", err)
		}
		json.Unmarshal(out, &o)
		// JSON keys are snake_case
		o.States, o.Transitions = int(o2["states"].(float64)), int(o2["transitions"].(float64))
		o.MaxDepth, o.Replayed = int(o2["max_depth"].(float64)), int(o2["replayed"].(float64))
		r.Set("states", o.States)
		r.Set("transitions", o.Transitions)
		r.Set("traces_validated_against_impl", o.Replayed)
		r.Set("max_depth", o.MaxDepth)
		r.Set("universe_size", K+1)
		r.Set("noop_intervals_checked", o2["noop_checked"])
		r.Set("transitions_from_17_and_33_class_sets", o2["large_set_transitions"])
		r.Set("transitions_of_the_size_sweep_1_to_140_classes", o2["size_sweep_transitions"])
		r.Set("states_reached_through_ast_nodes", o2["states_via_nodes"])
		r.Set("evaluations", o.Transitions)
		r.Set("rule", "BFS to closure over the real DisjunctRangeSet: state = List() content, operations = AddRange(f,t) for all f,t in the universe; every transition is an execution of the real AddRange (and, in a second exploration, AddLexTNode with the AST nodes a grammar produces) on a fresh object rebuilt from the shortest path; plus every sequence of two operations over a window of bounds applied to sets that already hold 17 and 33 classes; plus sets grown one disjoint range at a time to 140 classes in ascending, descending and middle-out order with four kinds of insertion tried at every size; distinct = distinct reachable class lists")
		for _, s := range o.Samples {
			r.Sample(s)
		}
		for i := 0; i < o.States; i++ {
			r.Distinct(strconv.Itoa(i))
		}
		r.Assumption("AddRange only compares bounds and adds/subtracts one, so behaviour is invariant under order-preserving renaming of runes: a universe of 8 (11) points reaches every case of the switch")
		// second part: the case ranges of every state of every emitted transition table of the lexical families are
		// sorted, pairwise disjoint and non-empty (each rune selects at most one transition)
		sw, done := newSweeper(t, "c18")
		defer done()
		_, fams := lexFamilies(tier)
		var mu sync.Mutex
		for _, fam := range []string{"L1", "L2", "L5", "L6", "L8", "L9"} {
			gs := fams[fam]
			texts := make([]string, len(gs))
			for i, g := range gs {
				texts[i] = g.Text()
			}
			sw.run(texts, nil, true, false, func(o *GenOut) {
				if o.Lex == nil {
					if o.Res.Exit == 0 && !o.Res.Hang {
						ev.Inconsistent("table reader cannot read the lexer tables emitted for a family grammar: %s\n%s", o.ReadErr, o.Text)
					}
					return
				}
				mu.Lock()
				defer mu.Unlock()
				r.Add("emitted_tables_checked", 1)
				for _, st := range o.Lex.States {
					r.Add("emitted_classes_checked", int64(len(st.Cases)))
				}
				if msg := mc.PartitionCheck(o.Lex); msg != "" {
					r.Violate("c18emit", o.Text, "emitted transition table: "+msg+"\n  grammar: "+oneLine(o.Text), map[string]any{"grammar": o.Text})
					return
				}
				// exactness: every emitted class must lie on one side of every literal and range expected in its state -
				// the product of the emitted table with the reference automaton closes only if no class straddles one
				g := gs[o.Idx]
				reserved := false
				for _, l := range strLits(g) {
					if l == "INVALID" || l == "\u241a" || l == "error" || l == "empty" {
						reserved = true // (shares a reserved token number: known finding of C10, not a matter of classes)
					}
				}
				if lr, err := ref.NewLexRef(g.Lex, strLits(g)); err == nil && !reserved {
					if res := mc.LexProduct(o.Lex, o.Tok.TypeMap, lr, false); res.Mismatch != "" {
						r.Violate("c18emit", "exact "+o.Text, fmt.Sprintf("emitted transition table: the classes of a state are not the exact partition of what its items expect: %s (witness %q)\n  grammar: %s", res.Mismatch, string(res.Witness), oneLine(o.Text)), map[string]any{"grammar": o.Text})
					}
					r.Add("emitted_tables_compared_with_reference", 1)
				}
			})
		}
		for _, v := range o.Violations {
			key := fmt.Sprintf("path=%v op=%v", v["path"], v["op"])
			if _, ok := v["universe"]; !ok {
				v["universe"] = K
			}
			r.Violate("c18", key, fmt.Sprintf("%v: after %v AddRange%v: %v -> %v", v["msg"], v["path"], v["op"], v["old"], v["new"]), v)
		}
		return r.Finish(nil)
	}
	replays["c18"] = func(rp *ev.Replay) int {
		t := gen.Build()
		b, _ := json.Marshal(rp.Case)
		k := 7
		if u, ok := rp.Case["universe"].(float64); ok {
			k = int(u)
		}
		cmd := exec.Command(t.Batch, "c18", "replay", string(b), strconv.Itoa(k))
		cmd.Stdout, cmd.Stderr = os.Stdout, os.Stderr
		if err := cmd.Run(); err != nil {
			fmt.Println("still violates")
			return 1
		}
		fmt.Println("holds")
		return 0
	}
}
