package main

import (
	"fmt"
	"strings"

	"verif/corp"
	"verif/ev"
	"verif/gen"
	"verif/gram"
)

func init() {
	checks["C17"] = func(tier string) int {
		t := gen.Build()
		r := ev.NewRun("C17", tier, "exploration")
		sw, done := newSweeper(t, "c17")
		defer done()
		base := reuseItems(sw, "quick")
		// parsers only; plain and -zip builds of each
		var items []*corp.Item
		nb := 0
		for _, it := range base {
			if len(it.G.Alts) == 0 {
				continue
			}
			if nb++; tier != "thorough" && nb%3 != 0 {
				continue
			}
			items = append(items, it)
			z := corp.NewItem(it.Fam+"-zip", it.G, append(append([]string{}, it.Flags...), "-zip")...)
			z.RtImp = true
			items = append(items, z)
		}
		c, err := corp.Build(t, sw.pool, "c17b", items)
		defer c.Close()
		if err != nil {
			ev.Inconsistent("layer-B corpus: %v", err)
		}
		for _, it := range c.Items {
			if !it.GenOK && !skipNotCompiling(it) {
				ev.Inconsistent("generation failed (exit %d): %s\n%s", it.Exit, it.Stdout, it.Text)
			}
		}
		n := 2
		opt := map[string]any{"max_exec": 3000}
		if tier == "thorough" {
			n = 3
			opt["three"] = true
			opt["max_exec"] = 20000
		}
		driverLoop(c, r, "C17", "conc", "conc", n, opt, "schedules")
		if r.Get("pairs_capped") > 0 {
			r.Cap(fmt.Sprintf("%d input tuples hit the per-tuple cap of %v schedules (all schedules below the cap were explored in DFS order)", r.Get("pairs_capped"), opt["max_exec"]))
		}
		// (ii) separate free-running pass under the race detector (a cooperative scheduler's hand-offs are
		// happens-before edges, so races inside a step are invisible to part (i))
		var raceItems []*corp.Item
		// nesting, right-recursive and left-recursive shapes first: their deep inputs drive the parser stack beyond
		// its initial capacity (growth and reuse of per-parser buffers)
		for _, s := range []string{"S: l S r | x", "L: x L | x", "L: L x | x", "E: E p T | T ; T: l E r | x"} {
			for _, fl := range [][]string{nil, {"-zip"}} {
				it := corp.NewItem("Deep", gram.WithRecActions(gram.Mk(s)), fl...)
				it.RtImp = true
				raceItems = append(raceItems, it)
			}
		}
		// long lexemes (identifiers of 60 to 300 bytes) in inputs that fail: error values are rendered, and every
		// goroutine reads the same source bytes
		for _, fl := range [][]string{nil, {"-zip"}} {
			lg := &gram.Grammar{
				Lex:  []gram.LexDef{{Name: "id", Kind: "tok", P: gram.Seq(gram.Rng('a', 'z'), gram.Rep(gram.Rng('a', 'z')))}, {Name: "num", Kind: "tok", P: gram.Seq(gram.Rng('0', '9'), gram.Rep(gram.Rng('0', '9')))}, {Name: "!ws", Kind: "ign", P: gram.Lit(' ')}},
				Alts: []gram.Alt{{Head: "S", Body: []gram.Sym{{Name: "id"}, {Name: "num"}}}, {Head: "S", Body: []gram.Sym{{Name: "num"}, {Name: "S"}}}},
			}
			it := corp.NewItem("LongTok", gram.WithRecActions(lg), fl...)
			it.RtImp = true
			long := func(c byte, n int) string { return strings.Repeat(string(c), n) }
			it.Extra = map[string]any{"sources": []string{
				long('a', 60) + " 1", long('a', 60) + " " + long('b', 70), "1 2 " + long('c', 300) + " " + long('d', 45),
				long('7', 80) + " " + long('8', 50) + " x y", long('e', 41) + "?" + long('f', 41), "1 " + long('g', 120) + " ?",
			}}
			raceItems = append(raceItems, it)
		}
		// actions that begin with a comment (the generator emits them in a different form)
		for _, fl := range [][]string{nil, {"-zip"}} {
			cg := gram.WithRecActions(gram.Mk("S: l S r | x | S x"))
			for i := range cg.Alts {
				cg.Alts[i].Action = "// alternative " + fmt.Sprint(i) + "\n\t" + cg.Alts[i].Action
			}
			it := corp.NewItem("CommentAct", cg, fl...)
			it.RtImp = true
			raceItems = append(raceItems, it)
		}
		for i, it := range c.Items {
			if tier == "thorough" || i < 8 {
				raceItems = append(raceItems, it)
			}
		}
		rc, err := corp.BuildOpt(t, sw.pool, "c17r", raceItems, true)
		defer rc.Close()
		if err != nil {
			ev.Inconsistent("race corpus: %v", err)
		}
		rc.ExtraEnv = []string{"GORACE=halt_on_error=0 exitcode=0", "GOMAXPROCS=8"}
		races := 0
		rc.OnStderr = func(shard int, text string) {
			k := strings.Count(text, "WARNING: DATA RACE")
			races += k
			if k > 0 {
				first := text
				if i := strings.Index(text, "=================="); i >= 0 {
					first = text[i:]
				}
				if len(first) > 3000 {
					first = first[:3000]
				}
				r.Violate("race", fmt.Sprintf("race shard %d", shard), "the race detector reports unsynchronised access to shared state in generated code:\n"+first, map[string]any{"report": first})
			} else if strings.TrimSpace(text) != "" {
				fmt.Println("race driver stderr:", text)
			}
		}
		driverLoop(rc, r, "C17", "conc", "race", n, nil, "free_running_parses")
		r.Set("race_detector_reports", races)
		r.Set("rule", "(i) per grammar (plain and -zip) and per ordered pair (thorough: triple) of inputs - token sequences up to the bound through a scripted scanner and sources through the real generated lexer, succeeding, failing and recovering - two goroutines with their own parser/lexer objects under a cooperative scheduler with yield points at every Scan and every action: all interleavings when there are <= 12 decision points, else all with <= 2 preemptions; every goroutine's result, error text, action calls must equal its sequential run; (ii) the same bodies free-running on 16 goroutines under -race, concurrent phase first (cold caches), half of the goroutines reusing one parser object, plus nesting / right-recursive grammars with inputs 150 and 330 tokens deep (parser stack beyond its initial capacity) and failing sources with lexemes of 41-300 bytes whose errors are rendered; the source bytes every goroutine reads must be unchanged afterwards; distinct = input tuples explored per grammar")
		r.Assumption("yield points are the parser's call-backs (Scanner.Scan, semantic actions); unsynchronised accesses inside a step are the race pass's subject")
		return r.Finish(nil)
	}
}
