package main

import (
	"encoding/json"
	"fmt"
	"os"
	"strings"

	"verif/corp"
	"verif/drv"
	"verif/ev"
	"verif/gen"
	"verif/gram"
)

// doReplay re-runs the single case of a replay file on gocc built from the CURRENT working tree, without the
// explorer: the grammar is regenerated and compiled unmodified, the one input is fed to the real Scan/Parse and
// judged by the same oracle. Exit 1 if it still violates the property, 0 if it now holds.
func doReplay(path string) int {
	b, err := os.ReadFile(path)
	if err != nil {
		fmt.Fprintln(os.Stderr, err)
		return 2
	}
	var rp ev.Replay
	if err := json.Unmarshal(b, &rp); err != nil {
		fmt.Fprintln(os.Stderr, err)
		return 2
	}
	fmt.Printf("property %s (%s)\nrecorded violation: %s\n", rp.Property, rp.Kind, rp.What)
	if f, ok := replays[rp.Kind]; ok {
		return f(&rp)
	}
	task := map[string]string{"lex": "lex", "parse": "parse", "recover": "recover", "actions": "actions"}[rp.Kind]
	if gj, ok := rp.Case["g"]; ok && task != "" && gj != nil {
		return replayDriver(&rp, task, gj)
	}
	// generic replay: show the recorded case, then re-evaluate the property on the current tree (the failing case is
	// part of the enumerated family, so the check reports it again if it still fails)
	c, _ := json.MarshalIndent(rp.Case, "", " ")
	fmt.Printf("case: %s\n(no single-case replayer for this kind: re-running the quick check)\n", c)
	f, ok := checks[rp.Property]
	if !ok {
		fmt.Fprintln(os.Stderr, "unknown property", rp.Property)
		return 2
	}
	return f("quick")
}

func replayDriver(rp *ev.Replay, task string, gj any) int {
	gb, _ := json.Marshal(gj)
	var g gram.Grammar
	if err := json.Unmarshal(gb, &g); err != nil {
		fmt.Fprintln(os.Stderr, "replay file: grammar:", err)
		return 2
	}
	var flags []string
	if fl, ok := rp.Case["flags"].([]any); ok {
		for _, f := range fl {
			flags = append(flags, fmt.Sprint(f))
		}
	}
	t := gen.Build()
	sw, done := newSweeper(t, "replay")
	defer done()
	it := corp.NewItem("replay", &g, flags...)
	text, _ := rp.Case["grammar"].(string)
	it.RtImp = strings.Contains(text, "\"verif/rt\"")
	it.TokImp = strings.Contains(text, "/o/token\"")
	g.Header = ""
	c, err := corp.Build(t, sw.pool, "replayb", []*corp.Item{it})
	defer c.Close()
	if err != nil {
		fmt.Println("the grammar's generated code does not build on the current tree:", err)
		return 1
	}
	if !it.GenOK {
		fmt.Printf("gocc now refuses the grammar (exit %d): %s\n", it.Exit, it.Stdout)
		return 1
	}
	opt := map[string]any{}
	if in, ok := rp.Case["input"].(string); ok {
		opt["only_input"] = in
		fmt.Println("input:", in)
	}
	if toks, ok := rp.Case["tokens"].([]any); ok {
		opt["only_tokens"] = toks
		fmt.Println("tokens:", toks)
	} else if task != "lex" {
		opt["only_tokens"] = []any{}
	}
	if m, ok := rp.Case["mode"].(string); ok {
		opt["mode"] = m
	}
	if task == "recover" && rp.Property == "C03" {
		opt["inject"] = true
	}
	fmt.Printf("grammar (as given to gocc):\n%s", it.Text)
	still := 0
	err = c.Run(task, 0, opt, 1, func(line []byte) {
		var o drv.Out
		if json.Unmarshal(line, &o) != nil {
			return
		}
		switch o.Kind {
		case "violation":
			still++
			fmt.Printf("STILL VIOLATES %s: %s\n", o.Prop, o.What)
		case "inconsistent":
			fmt.Println("harness inconsistency:", o.What)
			still++
		}
	})
	if err != nil {
		fmt.Println("driver failed:", err)
		return 1
	}
	if still == 0 {
		fmt.Println("the case now holds on the current tree")
		return 0
	}
	return 1
}
