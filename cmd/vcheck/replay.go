package main

import (
	"encoding/json"
	"fmt"
	"os"

	"verif/ev"
)

func doReplay(path string) int {
	b, err := os.ReadFile(path)
	if err != nil {
		fmt.Fprintln(os.Stderr, err)
		return 2
	}
	var rp ev.Replay
	if err := json.Unmarshal(b, &rp); err != nil {
		fmt.Fprintln(os.Stderr, err)
		return 2
	}
	if f, ok := replays[rp.Kind]; ok {
		return f(&rp)
	}
	// generic replay: show the recorded case, then re-evaluate the property on the current tree (the failing case is
	// part of the enumerated family, so the check reports it again if it still fails)
	c, _ := json.MarshalIndent(rp.Case, "", " ")
	fmt.Printf("property %s\nrecorded violation: %s\ncase: %s\n", rp.Property, rp.What, c)
	f, ok := checks[rp.Property]
	if !ok {
		fmt.Fprintln(os.Stderr, "unknown property", rp.Property)
		return 2
	}
	return f("quick")
}
