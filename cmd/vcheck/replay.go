package main

import (
	"encoding/json"
	"fmt"
	"os"

	"verif/ev"
)

func doReplay(path string) int {
	b, err := os.ReadFile(path)
	if err != nil {
		fmt.Fprintln(os.Stderr, err)
		return 2
	}
	var rp ev.Replay
	if err := json.Unmarshal(b, &rp); err != nil {
		fmt.Fprintln(os.Stderr, err)
		return 2
	}
	f, ok := replays[rp.Kind]
	if !ok {
		fmt.Fprintln(os.Stderr, "no replayer for kind", rp.Kind)
		return 2
	}
	return f(&rp)
}
