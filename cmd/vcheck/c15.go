package main

import (
	"encoding/json"
	"fmt"
	"path/filepath"
	"strconv"
	"strings"

	"verif/ev"
	"verif/gen"
)

func init() {
	checks["C15"] = func(tier string) int {
		t := gen.Build()
		r := ev.NewRun("C15", tier, "model_checking")
		n, full, after, maxSeq := 9, 4, 2, 60_000_000
		if tier == "thorough" {
			n, full, after, maxSeq = 11, 5, 3, 1_600_000_000
		}
		type c15o struct {
			Pairs, Edges                                            int
			ProductMismatch                                         string
			ProdMismatch                                            []string
			Sequences, Sentences, NonViableProbes, MaxLen           int
			Violations                                              []map[string]any
			NViol, Known                                            int
			KnownSample                                             string
			Samples                                                 []string
			DistinctReductionTraces, SpecProductions, ShippedStates int
			Capped                                                  bool
			ContinuedAfterError                                     int
		}
		const nshards = 16
		outs := make([]c15o, nshards)
		gen.ParallelFor(nshards, nshards, func(k int) {
			out, err := runBatch(t, "c15", strconv.Itoa(n), filepath.Join(gen.Repo, "spec", "gocc2.ebnf"), strconv.Itoa(maxSeq/nshards+1), strconv.Itoa(full), strconv.Itoa(after), strconv.Itoa(k), strconv.Itoa(nshards))
			if err != nil {
				ev.Inconsistent("c15 explorer failed: %v", err)
			}
			if err := json.Unmarshal(out, &outs[k]); err != nil {
				ev.Inconsistent("c15 output: %v\n%s", err, out)
			}
		})
		o := outs[0]
		for _, x := range outs[1:] {
			o.Sequences += x.Sequences
			o.Sentences += x.Sentences
			o.NonViableProbes += x.NonViableProbes
			o.NViol += x.NViol
			o.Known += x.Known
			o.DistinctReductionTraces += x.DistinctReductionTraces
			o.ContinuedAfterError += x.ContinuedAfterError
			o.Capped = o.Capped || x.Capped
			o.Violations = append(o.Violations, x.Violations...)
			o.ProdMismatch = append(o.ProdMismatch, x.ProdMismatch...)
			if len(o.Samples) < 5 {
				o.Samples = append(o.Samples, x.Samples...)
			}
			if o.KnownSample == "" {
				o.KnownSample = x.KnownSample
			}
			if x.MaxLen > o.MaxLen {
				o.MaxLen = x.MaxLen
			}
		}
		if len(o.ProdMismatch) > 1 {
			o.ProdMismatch = o.ProdMismatch[:1]
		}
		r.Set("states", o.Pairs)
		r.Set("transitions", o.Edges)
		r.Set("traces_validated_against_impl", o.Sequences)
		r.Set("evaluations", o.Sequences)
		r.Set("sentences", o.Sentences)
		r.Set("non_viable_one_token_extensions", o.NonViableProbes)
		r.Set("viable_prefix_bound", n)
		r.Set("all_sequences_bound", full)
		r.Set("tokens_explored_after_an_offending_token_when_the_parser_reads_on", after)
		r.Set("non_viable_prefixes_after_which_the_parser_asked_for_more_input", o.ContinuedAfterError)
		r.Set("distinct_reduction_traces", o.DistinctReductionTraces)
		r.Set("shipped_states", o.ShippedStates)
		r.Set("documented_productions", o.SpecProductions)
		for i := 0; i < o.DistinctReductionTraces; i++ {
			r.Distinct(strconv.Itoa(i))
		}
		for _, s := range o.Samples {
			r.Sample(s)
		}
		if o.Capped {
			r.Cap(fmt.Sprintf("sequence cap %d reached; sequences are enumerated in trie order, everything before the cap was checked", maxSeq))
		}
		if o.ProductMismatch != "" {
			// structural divergence is a lead; part (ii) judges concrete sequences. It is reported when (ii) found nothing
			// within its bound, because then the tables provably differ from canonical LR(1) of the documented grammar.
			r.Violate("c15", "product: "+o.ProductMismatch, "shipped front-end tables are not the canonical LR(1) tables of spec/gocc2.ebnf: "+o.ProductMismatch, map[string]any{"mismatch": o.ProductMismatch})
		}
		for _, m := range o.ProdMismatch {
			r.Violate("c15", "prods: "+m, m, map[string]any{"mismatch": m})
		}
		for _, v := range o.Violations {
			toks := fmt.Sprint(v["tokens"])
			r.Violate("c15", "seq "+toks, fmt.Sprintf("token sequence %s: %v", toks, v["what"]), v)
		}
		if o.Known > 0 {
			r.Violate("c15", "empty-alternative-pseudo-recovery", fmt.Sprintf("%d non-sentences accepted through the front end's own error recovery on '|' or ';', e.g. %s", o.Known, o.KnownSample),
				map[string]any{"count": o.Known, "example": o.KnownSample})
		}
		// (iii) the front end as a whole on texts: real scanner + real parser
		tout, err := runBatch(t, "c15text")
		if err != nil {
			ev.Inconsistent("c15text failed: %v", err)
		}
		var to struct {
			Texts      int
			Violations []struct{ Text, What string }
		}
		if err := json.Unmarshal(tout, &to); err != nil {
			ev.Inconsistent("c15text output: %v\n%s", err, tout)
		}
		r.Set("texts_through_scanner_and_parser", to.Texts)
		r.Add("evaluations", int64(to.Texts))
		for _, v := range to.Violations {
			r.Violate("c15", "text "+v.Text, fmt.Sprintf("text %q: %s", v.Text, v.What), map[string]any{"text": v.Text, "what": v.What})
		}
		r.Set("rule", "(i) product of the shipped ActionTable/GotoTable/ProductionsTable with the canonical LR(1) automaton of spec/gocc2.ebnf (read by an independent reader, \"error\"/\"empty\" ordinary terminals) over all 21 terminals and all non-terminals, to closure: same action kind, reductions by productions with equal head and body, same goto; (ii) the real front-end Parse (scripted scanner, reduce functions replaced by logging stubs) on every token sequence up to the all-sequences bound, every viable prefix up to the viable-prefix bound and, beyond the first offending token, the continuations of bounded length where the parser actually asks for more input (a parser that returns without requesting the next token cannot depend on it), trie order: accept <=> Earley sentence, logged productions = the documented grammar's reductions; (iii) the real scanner feeding the real parser on three well-formed texts and on each of them with one stray lexeme outside the documented token alphabet inserted at every gap (must be refused); distinct = distinct reduction traces")
		r.Assumption("semantic actions are stubbed, so acceptance is the parser's own (syntactic) verdict")
		_ = strings.Join
		return r.Finish(nil)
	}
}
