package main

import (
	"crypto/sha256"
	"encoding/hex"
	"fmt"
	"os"
	"path/filepath"
	"sort"
	"strings"
	"sync"

	"verif/ev"
	"verif/gen"
	"verif/gram"
)

// outcome summarises everything observable about one generator run: exit status, stdout, every emitted file.
func outcome(o *GenOut) (sum string, files map[string]string) {
	h := sha256.New()
	fmt.Fprintf(h, "exit=%d hang=%v\nstdout=%s\n", o.Res.Exit, o.Res.Hang, gen.NormStdout(o.Res.Stdout))
	files = map[string]string{}
	tree := gen.ReadTree(filepath.Join(o.Dir, "o"))
	var names []string
	for n := range tree {
		names = append(names, n)
	}
	sort.Strings(names)
	for _, n := range names {
		fh := sha256.Sum256(tree[n])
		files[n] = hex.EncodeToString(fh[:8])
		fmt.Fprintf(h, "%s %x\n", n, fh)
	}
	return hex.EncodeToString(h.Sum(nil)[:12]), files
}

func diffFiles(a, b map[string]string) string {
	var d []string
	for n, h := range a {
		if b[n] != h {
			d = append(d, n)
		}
	}
	for n := range b {
		if _, ok := a[n]; !ok {
			d = append(d, n)
		}
	}
	sort.Strings(d)
	return strings.Join(d, ", ")
}

// exampleSeeds reads the grammars shipped with the repository under test (real-world inputs). They import packages
// at their repository paths, so they serve the byte-identity checks (C11, C13, C19), not the compile step.
func exampleSeeds(tier string) []gram.Seed {
	fs, _ := filepath.Glob(filepath.Join(gen.Repo, "example", "*", "*.bnf"))
	fs = append(fs, filepath.Join(gen.Repo, "internal", "test", "t1", "t1.bnf"))
	sort.Strings(fs)
	var out []gram.Seed
	for i, f := range fs {
		b, err := os.ReadFile(f)
		if err != nil {
			continue
		}
		if _, err := gram.Lexemes(string(b)); err != nil {
			continue // a grammar the harness's own tokenizer does not handle is not used as a seed
		}
		if tier == "thorough" || i%4 == 1 {
			out = append(out, gram.Seed{Name: "example-" + filepath.Base(filepath.Dir(f)), Text: string(b)})
		}
	}
	return out
}

func allSeeds(tier string) []gram.Seed {
	seeds := append(gram.Seeds(), exampleSeeds(tier)...)
	// interpreted string literals with escapes at their end, start and middle
	seeds = append(seeds, gram.Seed{Name: "escaped-quotes", Text: "a : 'a' ;\nS : a \"\\\"\" | \"\\\"x\" a | \"x\\\\\" S | \"\\\\\" | \"a\\\"b\" ;\n"})
	if tier == "thorough" {
		for i, h := range gram.HostileSeeds() {
			if i%4 == 0 {
				seeds = append(seeds, h)
			}
		}
		for i, g := range gram.S2() {
			if i%5 == 0 {
				seeds = append(seeds, gram.Seed{Name: fmt.Sprintf("S2-%d", i), Text: g.Text()})
			}
		}
	}
	return seeds
}

func init() {
	checks["C13"] = func(tier string) int {
		t := gen.Build()
		r := ev.NewRun("C13", tier, "exploration")
		sw, done := newSweeper(t, "c13")
		defer done()
		var mu sync.Mutex
		for _, seed := range allSeeds(tier) {
			toks, err := gram.Lexemes(seed.Text)
			if err != nil {
				ev.Inconsistent("seed %s does not tokenize: %v", seed.Name, err)
			}
			canon := gram.Canonical(toks)
			var base string
			var baseFiles map[string]string
			var baseOut *GenOut
			sw.run([]string{canon}, []string{"-a"}, false, false, func(o *GenOut) { base, baseFiles = outcome(o); baseOut = o })
			if baseOut.Res.Exit != 0 {
				// a grammar gocc refuses (e.g. an accept/reduce conflict): every respelling must be refused the same way
				r.Add("seeds_refused_by_gocc", 1)
			}
			// the seed as written is itself a respelling of its canonical form
			rs := append([]gram.Respelling{{Kind: "as-written", Text: seed.Text}}, gram.Respellings(toks)...)
			if tier == "thorough" {
				rs = append(rs, gram.Respellings2(toks, 6000)...)
			}
			texts := make([]string, len(rs))
			for i, x := range rs {
				texts[i] = x.Text
			}
			kinds := map[string]int{}
			sw.run(texts, []string{"-a"}, false, false, func(o *GenOut) {
				sum, files := outcome(o)
				mu.Lock()
				defer mu.Unlock()
				r.Add("evaluations", 1)
				k := rs[o.Idx].Kind
				cls := "gap"
				if strings.HasPrefix(k, "tok") {
					cls = "literal"
				}
				kinds[cls]++
				r.Add("respellings_"+cls, 1)
				r.Distinct(seed.Name + "/" + k)
				if sum != base {
					what := fmt.Sprintf("seed %s respelled (%s): exit %d (canonical %d), differing files: %s", seed.Name, k, o.Res.Exit, baseOut.Res.Exit, diffFiles(baseFiles, files))
					r.Violate("c13", seed.Name+"/"+k, what, map[string]any{"seed": seed.Name, "respelling": k, "text": o.Text, "canonical": canon, "stdout": o.Res.Stdout, "stderr": o.Res.Stderr})
				}
				if o.Idx%997 == 3 {
					r.Sample(map[string]any{"seed": seed.Name, "respelling": k, "text": o.Text})
				}
			})
			r.Add("seeds", 1)
		}
		sw.checkCross()
		r.Set("cli_cross_checked", sw.pool.CrossChecked.Load())
		r.Set("rule", "per seed grammar: the canonical spelling (single spaces, newline after ';') and every deviation-1 respelling - each gap (before the first and after the last token included) x each filler of {space, tab, LF, CRLF, two spaces, /**/, /* c */, /* * / */, // c LF, // LF}, each character literal x each alternative spelling of the same code point (literal, \\x, octal, \\u, \\U, named; both hex cases), each string literal x the other quoting style (thorough: pairs of gap deviations); all emitted files, exit status and stdout must be byte-identical to the canonical run; distinct = (seed, respelling)")
		return r.Finish(nil)
	}
}
