package main

import (
	"fmt"
	"regexp"
	"strings"
	"sync"

	"verif/ev"
	"verif/gen"
	"verif/gram"
	"verif/ref"
)

// synRec is everything layer A knows about one syntax grammar.
type synRec struct {
	Fam       string
	G         *gram.Grammar
	Text      string
	C         *ref.CFG
	LR        *ref.LR
	Confl     []int // reference states with a conflict
	AccConfl  bool  // some conflict involves accept
	Plain     *GenOut
	Auto      *GenOut
	PlainConf int // number printed in "N LR-1 conflicts" (-1 = no such line)
	AutoConf  int
}

var reConflLine = regexp.MustCompile(`(\d+) LR-1 conflicts`)

func conflLine(stdout string) int {
	m := reConflLine.FindStringSubmatch(stdout)
	if m == nil {
		return -1
	}
	n := 0
	fmt.Sscan(m[1], &n)
	return n
}

func synFamilies(tier string) ([]string, map[string][]*gram.Grammar) {
	maxAlts := 3
	if tier == "thorough" {
		maxAlts = 4
	}
	return []string{"S1", "S2", "S3", "S4", "S5", "S6"}, map[string][]*gram.Grammar{"S1": gram.S1(maxAlts, false), "S2": gram.S2(), "S3": gram.S3(3), "S4": gram.S4(), "S5": realSynGrammars(), "S6": gram.S6()}
}

// synSweep runs every grammar through the real generator without and with -a and builds the reference automata.
func synSweep(sw *sweeper, fams []string, all map[string][]*gram.Grammar) []*synRec {
	var recs []*synRec
	for _, fam := range fams {
		gs := all[fam]
		rs := make([]*synRec, len(gs))
		texts := make([]string, len(gs))
		for i, g := range gs {
			texts[i] = g.Text()
			rs[i] = &synRec{Fam: fam, G: g, Text: texts[i]}
		}
		var wg sync.WaitGroup
		wg.Add(1)
		go func() {
			defer wg.Done()
			gen.ParallelFor(len(gs), 0, func(i int) {
				c := ref.NewCFG(gs[i])
				lr, err := c.NewLR(0)
				if err != nil {
					ev.Inconsistent("reference LR(1) construction: %v\n%s", err, texts[i])
				}
				rs[i].C, rs[i].LR = c, lr
				rs[i].Confl, rs[i].AccConfl = lr.ConflictStates()
			})
		}()
		sw.runKeep(texts, nil, false, true, func(o *GenOut) { rs[o.Idx].Plain = o; rs[o.Idx].PlainConf = conflLine(o.Res.Stdout) })
		sw.runKeep(texts, []string{"-a"}, false, true, func(o *GenOut) { rs[o.Idx].Auto = o; rs[o.Idx].AutoConf = conflLine(o.Res.Stdout) })
		wg.Wait()
		recs = append(recs, rs...)
	}
	sw.checkCross()
	return recs
}

func oneLine(s string) string { return strings.Join(strings.Fields(s), " ") }

// seqs enumerates all sequences over terms up to length n in trie order, calling f on entering a prefix; f returns
// false to prune the subtree. leave is called when backtracking.
func walkSeqs(terms []string, n int, enter func(seq []string) bool, leave func()) {
	var seq []string
	var rec func(d int)
	rec = func(d int) {
		if d == n {
			return
		}
		for _, t := range terms {
			seq = append(seq, t)
			if enter(seq) {
				rec(d + 1)
			}
			leave()
			seq = seq[:len(seq)-1]
		}
	}
	rec(0)
}

func inputTerms(c *ref.CFG) []string {
	var out []string
	for _, t := range c.Terms {
		if t != "error" {
			out = append(out, t)
		}
	}
	return out
}

func seqBound(tier string, nterms int) int {
	n := 5
	if tier == "thorough" {
		n = 7
	}
	for n > 2 && pow(nterms, n) > 60000 {
		n--
	}
	return n
}

func pow(b, e int) int {
	r := 1
	for i := 0; i < e; i++ {
		r *= b
		if r > 1<<40 {
			return r
		}
	}
	return r
}

// languageCheck drives tab over every sequence up to n and compares the verdict with Earley.
// Returns the first disagreement.
func languageCheck(c *ref.CFG, tab ref.Table, terms []string, n int, count func(seqs, sentences int)) (string, []string) {
	e := c.NewEarley()
	bad := ""
	var witness []string
	nseq, nsent := 0, 0
	check := func(seq []string) {
		nseq++
		d := ref.Drive(c, tab, seq, false)
		want := e.Accepted()
		if want {
			nsent++
		}
		if bad != "" {
			return
		}
		switch {
		case d.Loop:
			bad = "the table-driven parser does not terminate"
		case d.Bad != "":
			bad = "table inconsistency: " + d.Bad
		case d.Accept != want:
			bad = fmt.Sprintf("parser accepts=%v but sentence=%v", d.Accept, want)
		}
		if bad != "" {
			witness = append([]string(nil), seq...)
		}
	}
	check(nil)
	walkSeqs(terms, n, func(seq []string) bool {
		e.Extend(seq[len(seq)-1])
		check(seq)
		return true
	}, func() { e.Pop() })
	count(nseq, nsent)
	return bad, witness
}
