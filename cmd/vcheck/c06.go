package main

import (
	"fmt"
	"sort"
	"strings"

	"verif/ev"
	"verif/gen"
	"verif/mc"
	"verif/ref"
)

func init() {
	checks["C06"] = func(tier string) int {
		t := gen.Build()
		r := ev.NewRun("C06", tier, "model_checking")
		sw, done := newSweeper(t, "c06")
		defer done()
		fams, all := synFamilies(tier)
		recs := synSweep(sw, fams, all)
		var cands []*synRec
		for i, rec := range recs {
			if rec.G.HasError() || !goccConflictFree(rec) || len(rec.Confl) > 0 || !rec.C.Productive() || len(rec.C.Undefined()) > 0 {
				continue
			}
			r.Add("grammars", 1)
			cands = append(cands, rec)
			tab := mc.NewReadTable(rec.Plain.Par, rec.Plain.Tok.TypeMap)
			terms := inputTerms(rec.C)
			n := seqBound(tier, len(terms))
			e := rec.C.NewEarley()
			viable := []bool{true}
			bad := false
			check := func(seq []string) {
				if bad || e.Accepted() && viable[len(viable)-1] {
					return
				}
				r.Add("evaluations", 1)
				d := ref.Drive(rec.C, tab, seq, false)
				if d.Accept || d.Loop || d.Bad != "" {
					return // C02's subject
				}
				off := len(seq)
				for i := range seq {
					if !viable[i+1] {
						off = i
						break
					}
				}
				e2 := rec.C.NewEarley()
				for _, t := range seq[:off] {
					e2.Extend(t)
				}
				want := e2.Next()
				sort.Strings(d.Expected)
				what := ""
				switch {
				case d.ErrAt != off:
					what = fmt.Sprintf("error reported at token #%d, first offending token is #%d", d.ErrAt, off)
				case d.ReducesOnOffending != 0:
					what = fmt.Sprintf("%d reductions performed with the offending token #%d as look-ahead", d.ReducesOnOffending, off)
				case strings.Join(d.Expected, " ") != strings.Join(want, " "):
					what = fmt.Sprintf("expected set %v, exact continuation set %v", d.Expected, want)
				}
				if what != "" {
					bad = true
					r.Violate("c06", rec.Text+"|"+strings.Join(seq, " "), fmt.Sprintf("tokens [%s]: %s\n  grammar: %s", strings.Join(seq, " "), what, oneLine(rec.Text)),
						map[string]any{"grammar": rec.Text, "tokens": append([]string(nil), seq...), "level": "read-back tables"})
					return
				}
				r.Distinct(fmt.Sprintf("%s/%d/%v", rec.G.ID(), off, want))
				if i%700 == 2 && len(seq) == 3 {
					r.Sample(map[string]any{"grammar": oneLine(rec.Text), "tokens": strings.Join(seq, " "), "offending": off, "expected": want})
				}
			}
			check(nil)
			walkSeqs(terms, n, func(seq []string) bool {
				alive := e.Extend(seq[len(seq)-1]) && viable[len(viable)-1]
				viable = append(viable, alive)
				check(seq)
				return alive || viable[len(viable)-2]
			}, func() { e.Pop(); viable = viable[:len(viable)-1] })
			// the product with canonical LR(1) (C02) extends this to all lengths: canonical LR(1) has the
			// correct-prefix property and never reduces on a look-ahead that cannot follow
			pr := mc.LRProduct(tab, rec.LR)
			r.Add("states", int64(pr.Pairs))
			r.Add("transitions", int64(pr.Edges))
			if pr.Mismatch == "" {
				r.Add("products_closed", 1)
			}
		}
		parseLayerB(t, sw, r, "C06", tier, cands)
		r.Set("cli_cross_checked", sw.pool.CrossChecked.Load())
		r.Set("rule", "every conflict-free, error-free grammar of S1/S2 whose non-terminals are all productive: (A) the reference driver over the READ-BACK tables on every non-sentence up to the bound: stops at the first token that makes the prefix non-viable (Earley), with no reduction on that look-ahead, and the non-nil cells of the stopping row are exactly the Earley continuation set; (B) compiled unmodified parsers: ErrorToken is the very token object (pointer identity) the scanner returned, ExpectedTokens is that set, no action/scan after the offending token; distinct = (grammar, offending index, expected set)")
		return r.Finish(nil)
	}
}
