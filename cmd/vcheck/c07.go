package main

import (
	"encoding/json"
	"fmt"
	"sort"

	"verif/corp"
	"verif/drv"
	"verif/ev"
	"verif/gen"
	"verif/gram"
	"verif/ref"
)

// errFamily returns the conflict-free grammars with error alternatives (by the reference LR(1), error as a terminal).
func errFamily(tier string) []*gram.Grammar {
	var out []*gram.Grammar
	cands := gram.ErrSeeds()
	if tier == "thorough" {
		cands = append(cands, gram.ErrFromS1(3)...)
	} else {
		cands = append(cands, gram.ErrFromS1(2)...)
	}
	keep := make([]bool, len(cands))
	gen.ParallelFor(len(cands), 0, func(i int) {
		c := ref.NewCFG(cands[i])
		lr, err := c.NewLR(0)
		if err != nil {
			return
		}
		cs, _ := lr.ConflictStates()
		keep[i] = len(cs) == 0
	})
	for i, g := range cands {
		if keep[i] {
			out = append(out, g)
		}
	}
	return out
}

func init() {
	checks["C07"] = func(tier string) int {
		t := gen.Build()
		r := ev.NewRun("C07", tier, "exploration")
		sw, done := newSweeper(t, "c07")
		defer done()
		fam := errFamily(tier)
		r.Set("errfam_conflict_free", len(fam))
		budget := 45
		if tier == "thorough" {
			budget = 400
		}
		nseeds := len(gram.ErrSeeds())
		// seeds always; of the derived grammars the smallest with distinct text, spread over the family
		var sel []*gram.Grammar
		for i, g := range fam {
			if i < nseeds {
				sel = append(sel, g)
			}
		}
		rest := fam[min(nseeds, len(fam)):]
		sort.SliceStable(rest, func(i, j int) bool { return len(rest[i].Text()) < len(rest[j].Text()) })
		stride := 1
		if len(rest) > budget {
			stride = len(rest) / (budget - min(budget-1, len(sel)))
			if stride < 1 {
				stride = 1
			}
		}
		for i := 0; i < len(rest) && len(sel) < budget; i += stride {
			sel = append(sel, rest[i])
		}
		var items []*corp.Item
		for i, g := range sel {
			it := corp.NewItem("Err", gram.WithRecActions(g))
			it.RtImp = true
			items = append(items, it)
			// the compressed tables carry the recovery flags too
			if i < nseeds || tier == "thorough" {
				z := corp.NewItem("Err-zip", gram.WithRecActions(g), "-zip")
				z.RtImp = true
				items = append(items, z)
			}
		}
		// hand-written seeds whose only conflicts are resolved by -a (an error shift against a reduction with error in
		// its look-ahead): generated with -a, judged by the recovery rule over the resolved tables
		for _, s := range []string{"S: L B ; L: a | a L | error ; B: b | error", "S: L T ; L: s | s L ; T: error x | y", "S: A B ; A: a | a a ; B: error b | b",
			"S: L B c ; L: a | a L | error ; B: b | error", "P: L T ; L: E | E L ; E: i semi | error semi ; T: dot | error bang"} {
			it := corp.NewItem("Err-auto", gram.WithRecActions(gram.Mk(s)), "-a")
			it.RtImp = true
			items = append(items, it)
		}
		c, err := corp.Build(t, sw.pool, "c07b", items)
		defer c.Close()
		if err != nil {
			ev.Inconsistent("layer-B corpus: %v", err)
		}
		byItem := map[string]*corp.Item{}
		for _, it := range c.Items {
			byItem[it.ID] = it
			if !it.GenOK && !skipNotCompiling(it) {
				r.Violate("c07gen", it.Text, fmt.Sprintf("gocc refuses a conflict-free grammar with error alternatives: exit %d %s\n  grammar: %s", it.Exit, it.Stdout, oneLine(it.Text)), map[string]any{"grammar": it.Text})
			}
		}
		n := 5
		if tier == "thorough" {
			n = 7
		}
		err = c.Run("recover", n, nil, 16, func(line []byte) {
			var o drv.Out
			if json.Unmarshal(line, &o) != nil {
				ev.Inconsistent("driver output: %s", line)
			}
			switch o.Kind {
			case "inconsistent":
				ev.Inconsistent("driver: item %s: %s\n%s", o.Item, o.What, byItem[o.Item].Text)
			case "violation":
				if o.Prop == "C07" {
					r.Violate("recover", o.Key, o.What+"\n  grammar: "+oneLine(byItem[o.Item].Text), o.Case)
				}
			case "stats":
				r.Add("parsers_compiled", 1)
				for k, v := range o.Counters {
					if k == "sequences" {
						r.Add("evaluations", v)
					}
					r.Add(k, v)
				}
				for _, d := range o.Distinct {
					r.Distinct(o.Item + d)
				}
				for _, s := range o.Samples {
					r.Sample(s)
				}
			}
		})
		if err != nil {
			driverFailed(r, "C07", "recover", c, err)
		}
		r.Set("sequence_bound", n)
		r.Set("rule", "compiled unmodified parsers (plain, and -zip for the seeds) of conflict-free grammars with error alternatives (hand-built seeds + S1 grammars with one alternative replaced by each error form): every token sequence up to the bound through the real Parse under recover() and a scan budget, compared with a literal transcription of the recovery rule (verdict, action calls with the error attribute's token and discarded attributes by identity, result, tokens consumed); inertness against the twin grammar without error alternatives; distinct = (grammar, recovery class, action-call sequence)")
		return r.Finish(nil)
	}
}
