// Package mo owns gocc's only source of nondeterminism, Go's randomised map iteration: it rewrites - in copies
// supplied through go build -overlay, never in /repo - every `range m` over a map into `range verifmo.Ord(m, site)`,
// where verifmo yields the keys in an order chosen by the harness.
package mo

import (
	"bytes"
	"fmt"
	"go/ast"
	"go/format"
	"go/importer"
	"go/parser"
	"go/token"
	"go/types"
	"os"
	"path/filepath"
	"sort"
	"strings"
)

// VerifmoSrc is the overlay package internal/verifmo.
const VerifmoSrc = `// Added by the verification harness through go build -overlay.
package verifmo

import (
	"fmt"
	"iter"
	"os"
	"sort"
	"strings"
)

// policyFor reads VERIF_MAPORDER: "policy" or "site=policy,site=policy" (default asc).
func policyFor(site string) string {
	spec := os.Getenv("VERIF_MAPORDER")
	if spec == "" {
		return "asc"
	}
	def := "asc"
	for _, f := range strings.Split(spec, ",") {
		if i := strings.IndexByte(f, '='); i >= 0 {
			if f[:i] == site {
				return f[i+1:]
			}
		} else {
			def = f
		}
	}
	return def
}

// Ord iterates over a snapshot of m's keys in the order chosen for this site.
func Ord[K comparable, V any](m map[K]V, site string) iter.Seq2[K, V] {
	return func(yield func(K, V) bool) {
		keys := make([]K, 0, len(m))
		for k := range m {
			keys = append(keys, k)
		}
		sort.SliceStable(keys, func(i, j int) bool { return fmt.Sprint(keys[i]) < fmt.Sprint(keys[j]) })
		n := len(keys)
		switch policyFor(site) {
		case "desc":
			for i, j := 0, n-1; i < j; i, j = i+1, j-1 {
				keys[i], keys[j] = keys[j], keys[i]
			}
		case "rot1":
			if n > 1 {
				keys = append(keys[1:], keys[0])
			}
		case "swap01":
			if n > 1 {
				keys[0], keys[1] = keys[1], keys[0]
			}
		case "midout":
			out := make([]K, 0, n)
			for i, lo, hi := 0, (n-1)/2, (n-1)/2+1; i < n; i++ {
				if i%2 == 0 && lo >= 0 {
					out = append(out, keys[lo])
					lo--
				} else if hi < n {
					out = append(out, keys[hi])
					hi++
				} else {
					out = append(out, keys[lo])
					lo--
				}
			}
			keys = out
		}
		if f := os.Getenv("VERIF_MAPORDER_LOG"); f != "" && n > 1 {
			if w, err := os.OpenFile(f, os.O_APPEND|os.O_CREATE|os.O_WRONLY, 0o666); err == nil {
				fmt.Fprintf(w, "%s %d\n", site, n)
				w.Close()
			}
		}
		for _, k := range keys {
			v, ok := m[k]
			if !ok {
				continue
			}
			if !yield(k, v) {
				return
			}
		}
	}
}
`

// Result of the rewrite.
type Result struct {
	Files map[string][]byte // original absolute path -> rewritten source
	Sites []string          // "relative/file.go:line"
	Other []string          // other potential nondeterminism sources found syntactically (go statements, time, rand ...)
}

// Rewrite type-checks gocc's packages from source (working tree) and rewrites every range over a map.
// Must run with the working directory inside repo (the source importer resolves module imports from there).
func Rewrite(repo, modPath string) (*Result, error) {
	res := &Result{Files: map[string][]byte{}}
	fset := token.NewFileSet()
	var dirs []string
	filepath.Walk(filepath.Join(repo, "internal"), func(p string, info os.FileInfo, err error) error {
		if err == nil && info.IsDir() {
			if strings.HasPrefix(p, filepath.Join(repo, "internal", "test")) {
				return filepath.SkipDir
			}
			dirs = append(dirs, p)
		}
		return nil
	})
	dirs = append(dirs, repo)
	sort.Strings(dirs)
	old, _ := os.Getwd()
	os.Chdir(repo)
	defer os.Chdir(old)
	imp := importer.ForCompiler(fset, "source", nil)
	for _, dir := range dirs {
		ents, _ := os.ReadDir(dir)
		var files []*ast.File
		var paths []string
		for _, e := range ents {
			n := e.Name()
			if e.IsDir() || !strings.HasSuffix(n, ".go") || strings.HasSuffix(n, "_test.go") {
				continue
			}
			p := filepath.Join(dir, n)
			f, err := parser.ParseFile(fset, p, nil, parser.ParseComments)
			if err != nil {
				return nil, err
			}
			files = append(files, f)
			paths = append(paths, p)
		}
		if len(files) == 0 {
			continue
		}
		info := &types.Info{Types: map[ast.Expr]types.TypeAndValue{}}
		conf := types.Config{Importer: imp, Error: func(error) {}}
		rel, _ := filepath.Rel(repo, dir)
		pkgPath := modPath
		if rel != "." {
			pkgPath = modPath + "/" + filepath.ToSlash(rel)
		}
		conf.Check(pkgPath, fset, files, info)
		for i, f := range files {
			changed := false
			relFile, _ := filepath.Rel(repo, paths[i])
			ast.Inspect(f, func(n ast.Node) bool {
				switch x := n.(type) {
				case *ast.RangeStmt:
					tv, ok := info.Types[x.X]
					if !ok || tv.Type == nil {
						return true
					}
					if _, isMap := tv.Type.Underlying().(*types.Map); isMap {
						site := fmt.Sprintf("%s:%d", relFile, fset.Position(x.Pos()).Line)
						res.Sites = append(res.Sites, site)
						x.X = &ast.CallExpr{
							Fun:  &ast.SelectorExpr{X: ast.NewIdent("verifmo"), Sel: ast.NewIdent("Ord")},
							Args: []ast.Expr{x.X, &ast.BasicLit{Kind: token.STRING, Value: fmt.Sprintf("%q", site)}},
						}
						changed = true
					}
				case *ast.GoStmt:
					res.Other = append(res.Other, fmt.Sprintf("go statement at %s:%d", relFile, fset.Position(x.Pos()).Line))
				}
				return true
			})
			for _, im := range f.Imports {
				switch strings.Trim(im.Path.Value, `"`) {
				case "math/rand", "math/rand/v2", "crypto/rand", "time", "maps", "reflect":
					res.Other = append(res.Other, fmt.Sprintf("import %s in %s", im.Path.Value, relFile))
				}
			}
			if !changed {
				continue
			}
			// add the import
			addImport(f, modPath+"/internal/verifmo")
			var buf bytes.Buffer
			if err := format.Node(&buf, fset, f); err != nil {
				return nil, err
			}
			res.Files[paths[i]] = buf.Bytes()
		}
	}
	sort.Strings(res.Sites)
	return res, nil
}

func addImport(f *ast.File, path string) {
	spec := &ast.ImportSpec{Path: &ast.BasicLit{Kind: token.STRING, Value: fmt.Sprintf("%q", path)}}
	for _, d := range f.Decls {
		if gd, ok := d.(*ast.GenDecl); ok && gd.Tok == token.IMPORT {
			gd.Specs = append(gd.Specs, spec)
			if !gd.Lparen.IsValid() {
				gd.Lparen = gd.Pos()
				gd.Rparen = gd.End()
			}
			f.Imports = append(f.Imports, spec)
			return
		}
	}
	gd := &ast.GenDecl{Tok: token.IMPORT, Specs: []ast.Spec{spec}}
	f.Decls = append([]ast.Decl{gd}, f.Decls...)
	f.Imports = append(f.Imports, spec)
}
