package ref

import (
	"fmt"
	"sort"
	"strings"

	"verif/gram"
)

const EOF = "␚"

// Prod is a production of the reference grammar. Body symbols are names; a name is a non-terminal iff it is a head.
type Prod struct {
	Head string
	Body []string
	Err  bool // the alternative starts with the error symbol (Body[0] == "error")
	Alt  int  // index of the alternative in gram.Grammar.Alts (-1 for the augmented production)
}

// CFG is the reference grammar with gocc's production numbering: 0 is S' : start, then the alternatives in
// file order.
type CFG struct {
	Prods  []Prod
	NT     map[string]bool
	NTs    []string // in order of first appearance (S' first)
	Terms  []string // terminals in order of first use in the numbered productions ("error" included when used)
	byHead map[string][]int
	first  map[string]map[string]bool
	null   map[string]bool
}

func SymName(s gram.Sym) string { return s.Name }

// NewCFG builds the reference grammar of g's syntax part.
func NewCFG(g *gram.Grammar) *CFG {
	c := &CFG{NT: map[string]bool{}, byHead: map[string][]int{}}
	heads := g.NonTerminals()
	if len(heads) == 0 {
		return c
	}
	c.Prods = append(c.Prods, Prod{Head: "S'", Body: []string{heads[0]}, Alt: -1})
	c.NTs = append(c.NTs, "S'")
	c.NT["S'"] = true
	for _, h := range heads {
		c.NT[h] = true
		c.NTs = append(c.NTs, h)
	}
	// gocc numbers productions in file order (alternatives of one head need not be contiguous)
	for ai, a := range g.Alts {
		p := Prod{Head: a.Head, Err: a.Err, Alt: ai}
		if a.Err {
			p.Body = append(p.Body, "error")
		}
		for _, s := range a.Body {
			p.Body = append(p.Body, s.Name)
		}
		c.Prods = append(c.Prods, p)
	}
	seen := map[string]bool{}
	for i, p := range c.Prods {
		c.byHead[p.Head] = append(c.byHead[p.Head], i)
		for _, s := range p.Body {
			if !c.NT[s] && !seen[s] {
				seen[s] = true
				c.Terms = append(c.Terms, s)
			}
		}
	}
	c.computeFirst()
	return c
}

func (c *CFG) computeFirst() {
	c.first = map[string]map[string]bool{}
	c.null = map[string]bool{}
	for n := range c.NT {
		c.first[n] = map[string]bool{}
	}
	for ch := true; ch; {
		ch = false
		for _, p := range c.Prods {
			allNull := true
			for _, s := range p.Body {
				if c.NT[s] {
					for t := range c.first[s] {
						if !c.first[p.Head][t] {
							c.first[p.Head][t] = true
							ch = true
						}
					}
					if !c.null[s] {
						allNull = false
						break
					}
				} else {
					if !c.first[p.Head][s] {
						c.first[p.Head][s] = true
						ch = true
					}
					allNull = false
					break
				}
			}
			if allNull && !c.null[p.Head] {
				c.null[p.Head] = true
				ch = true
			}
		}
	}
}

func (c *CFG) firstSeq(seq []string, la string) []string {
	out := map[string]bool{}
	done := false
	for _, s := range seq {
		if c.NT[s] {
			for t := range c.first[s] {
				out[t] = true
			}
			if !c.null[s] {
				done = true
				break
			}
		} else {
			out[s] = true
			done = true
			break
		}
	}
	if !done {
		out[la] = true
	}
	r := make([]string, 0, len(out))
	for t := range out {
		r = append(r, t)
	}
	sort.Strings(r)
	return r
}

// Productive reports whether every non-terminal derives some terminal string.
func (c *CFG) Productive() bool {
	prod := map[string]bool{}
	for ch := true; ch; {
		ch = false
		for _, p := range c.Prods {
			if prod[p.Head] {
				continue
			}
			ok := true
			for _, s := range p.Body {
				if c.NT[s] && !prod[s] {
					ok = false
					break
				}
			}
			if ok {
				prod[p.Head] = true
				ch = true
			}
		}
	}
	for n := range c.NT {
		if !prod[n] {
			return false
		}
	}
	return true
}

// Undefined returns non-terminal-looking body symbols (upper-case initial) that have no production.
func (c *CFG) Undefined() []string {
	var out []string
	for _, p := range c.Prods {
		for _, s := range p.Body {
			if gram.IsNT(s) && !c.NT[s] {
				out = append(out, s)
			}
		}
	}
	return out
}

// ---------------------------------------------------------------------------------------------
// Earley recogniser (R-cfg).

type eItem struct{ p, dot, org int }

// Earley holds the chart of one token sequence; Extend adds one token.
type Earley struct {
	c     *CFG
	chart []map[eItem]bool
}

func (c *CFG) NewEarley() *Earley {
	e := &Earley{c: c}
	s := map[eItem]bool{}
	s[eItem{0, 0, 0}] = true
	e.chart = append(e.chart, s)
	e.close(0)
	return e
}

func (e *Earley) close(k int) {
	set := e.chart[k]
	todo := make([]eItem, 0, len(set))
	for it := range set {
		todo = append(todo, it)
	}
	add := func(it eItem) {
		if !set[it] {
			set[it] = true
			todo = append(todo, it)
		}
	}
	for len(todo) > 0 {
		it := todo[len(todo)-1]
		todo = todo[:len(todo)-1]
		b := e.c.Prods[it.p].Body
		if it.dot < len(b) {
			s := b[it.dot]
			if e.c.NT[s] {
				for _, q := range e.c.byHead[s] {
					add(eItem{q, 0, k})
				}
				// completion of an already finished nullable instance
				for c2 := range set {
					if c2.org == k && e.c.Prods[c2.p].Head == s && c2.dot == len(e.c.Prods[c2.p].Body) {
						add(eItem{it.p, it.dot + 1, it.org})
						break
					}
				}
			}
		} else {
			h := e.c.Prods[it.p].Head
			for pr := range e.chart[it.org] {
				pb := e.c.Prods[pr.p].Body
				if pr.dot < len(pb) && pb[pr.dot] == h {
					add(eItem{pr.p, pr.dot + 1, pr.org})
				}
			}
		}
	}
}

// Extend scans one terminal; returns false if the chart becomes empty (no derivation has this prefix).
func (e *Earley) Extend(tok string) bool {
	k := len(e.chart) - 1
	next := map[eItem]bool{}
	for it := range e.chart[k] {
		b := e.c.Prods[it.p].Body
		if it.dot < len(b) && !e.c.NT[b[it.dot]] && b[it.dot] == tok {
			next[eItem{it.p, it.dot + 1, it.org}] = true
		}
	}
	e.chart = append(e.chart, next)
	e.close(k + 1)
	return len(next) > 0
}

// Pop removes the last token (backtracking along a trie).
func (e *Earley) Pop() { e.chart = e.chart[:len(e.chart)-1] }

// Accepted: the tokens so far form a sentence.
func (e *Earley) Accepted() bool {
	return e.chart[len(e.chart)-1][eItem{0, 1, 0}]
}

// Alive: some derivation has the tokens so far as a prefix (= prefix of a sentence when the grammar is productive).
func (e *Earley) Alive() bool { return len(e.chart[len(e.chart)-1]) > 0 }

// Next returns the terminals a such that the tokens so far followed by a keep the chart non-empty, plus EOF if
// the tokens so far are a sentence; sorted.
func (e *Earley) Next() []string {
	set := map[string]bool{}
	for it := range e.chart[len(e.chart)-1] {
		b := e.c.Prods[it.p].Body
		if it.dot < len(b) && !e.c.NT[b[it.dot]] {
			set[b[it.dot]] = true
		}
	}
	if e.Accepted() {
		set[EOF] = true
	}
	out := make([]string, 0, len(set))
	for t := range set {
		out = append(out, t)
	}
	sort.Strings(out)
	return out
}

// Accepts is the one-shot form.
func (c *CFG) Accepts(toks []string) bool {
	e := c.NewEarley()
	for _, t := range toks {
		if !e.Extend(t) {
			return false
		}
	}
	return e.Accepted()
}

// ---------------------------------------------------------------------------------------------
// R-lr: canonical LR(1), no state merging.

type lrItem struct {
	p, dot int
	la     string
}

// Act is one parser action of the reference.
type Act struct {
	Kind byte // 's' shift, 'r' reduce, 'a' accept
	N    int  // target state / production
}

func (a Act) String() string {
	switch a.Kind {
	case 's':
		return fmt.Sprintf("shift(%d)", a.N)
	case 'r':
		return fmt.Sprintf("reduce(%d)", a.N)
	case 'a':
		return "accept"
	}
	return "nil"
}

type LR struct {
	C       *CFG
	States  [][]lrItem
	Trans   []map[string]int
	Actions []map[string][]Act // all competing actions per terminal, sorted (shift first, then accept, then reduces ascending)
}

func itemsKey(items []lrItem) string {
	var b strings.Builder
	for _, it := range items {
		fmt.Fprintf(&b, "%d.%d.%s;", it.p, it.dot, it.la)
	}
	return b.String()
}

func (c *CFG) closure(kernel []lrItem) []lrItem {
	set := map[lrItem]bool{}
	var todo []lrItem
	for _, it := range kernel {
		if !set[it] {
			set[it] = true
			todo = append(todo, it)
		}
	}
	for len(todo) > 0 {
		it := todo[len(todo)-1]
		todo = todo[:len(todo)-1]
		b := c.Prods[it.p].Body
		if it.dot < len(b) && c.NT[b[it.dot]] {
			for _, t := range c.firstSeq(b[it.dot+1:], it.la) {
				for _, q := range c.byHead[b[it.dot]] {
					n := lrItem{q, 0, t}
					if !set[n] {
						set[n] = true
						todo = append(todo, n)
					}
				}
			}
		}
	}
	out := make([]lrItem, 0, len(set))
	for it := range set {
		out = append(out, it)
	}
	sort.Slice(out, func(i, j int) bool {
		a, b := out[i], out[j]
		if a.p != b.p {
			return a.p < b.p
		}
		if a.dot != b.dot {
			return a.dot < b.dot
		}
		return a.la < b.la
	})
	return out
}

// NewLR builds the canonical LR(1) automaton. maxStates guards against blow-up (0 = 20000).
func (c *CFG) NewLR(maxStates int) (*LR, error) {
	if maxStates == 0 {
		maxStates = 20000
	}
	lr := &LR{C: c}
	s0 := c.closure([]lrItem{{0, 0, EOF}})
	lr.States = append(lr.States, s0)
	lr.Trans = append(lr.Trans, map[string]int{})
	idx := map[string]int{itemsKey(s0): 0}
	for i := 0; i < len(lr.States); i++ {
		I := lr.States[i]
		var syms []string
		seen := map[string]bool{}
		for _, it := range I {
			b := c.Prods[it.p].Body
			if it.dot < len(b) && !seen[b[it.dot]] {
				seen[b[it.dot]] = true
				syms = append(syms, b[it.dot])
			}
		}
		sort.Strings(syms)
		for _, X := range syms {
			var kernel []lrItem
			for _, it := range I {
				b := c.Prods[it.p].Body
				if it.dot < len(b) && b[it.dot] == X {
					kernel = append(kernel, lrItem{it.p, it.dot + 1, it.la})
				}
			}
			J := c.closure(kernel)
			k := itemsKey(J)
			j, ok := idx[k]
			if !ok {
				j = len(lr.States)
				if j >= maxStates {
					return nil, fmt.Errorf("more than %d LR(1) states", maxStates)
				}
				idx[k] = j
				lr.States = append(lr.States, J)
				lr.Trans = append(lr.Trans, map[string]int{})
			}
			lr.Trans[i][X] = j
		}
	}
	for si, I := range lr.States {
		row := map[string]map[Act]bool{}
		add := func(t string, a Act) {
			if row[t] == nil {
				row[t] = map[Act]bool{}
			}
			row[t][a] = true
		}
		for _, it := range I {
			b := c.Prods[it.p].Body
			if it.dot == len(b) {
				if it.p == 0 {
					add(it.la, Act{'a', 0})
				} else {
					add(it.la, Act{'r', it.p})
				}
			} else if !c.NT[b[it.dot]] {
				add(b[it.dot], Act{'s', lr.Trans[si][b[it.dot]]})
			}
		}
		out := map[string][]Act{}
		for t, set := range row {
			var as []Act
			for a := range set {
				as = append(as, a)
			}
			rank := func(a Act) int {
				switch a.Kind {
				case 's':
					return 0
				case 'a':
					return 1
				}
				return 2
			}
			sort.Slice(as, func(i, j int) bool {
				if rank(as[i]) != rank(as[j]) {
					return rank(as[i]) < rank(as[j])
				}
				return as[i].N < as[j].N
			})
			out[t] = as
		}
		lr.Actions = append(lr.Actions, out)
	}
	return lr, nil
}

// ConflictStates returns the states in which some terminal admits two different actions, and whether any
// conflict involves accept.
func (lr *LR) ConflictStates() (states []int, acceptConflict bool) {
	for si, row := range lr.Actions {
		c := false
		for _, as := range row {
			if len(as) > 1 {
				c = true
				for _, a := range as {
					if a.Kind == 'a' {
						acceptConflict = true
					}
				}
			}
		}
		if c {
			states = append(states, si)
		}
	}
	return
}

// Resolved returns the action chosen by "shift if any, else the lowest production" (nil Act{} if none).
func (lr *LR) Resolved(s int, t string) (Act, bool) {
	as := lr.Actions[s][t]
	if len(as) == 0 {
		return Act{}, false
	}
	return as[0], true
}

// ---------------------------------------------------------------------------------------------
// R-drv: the plain shift/reduce loop over any table.

// Table abstracts a parser table (read-back, compiled or reference).
type Table interface {
	Action(state int, term string) (Act, bool)
	Goto(state int, nt string) (int, bool)
	Row(state int) []string // terminals with a non-nil action
}

func (lr *LR) Action(s int, t string) (Act, bool) { return lr.Resolved(s, t) }
func (lr *LR) Goto(s int, nt string) (int, bool) {
	n, ok := lr.Trans[s][nt]
	return n, ok
}
func (lr *LR) Row(s int) []string {
	var out []string
	for t := range lr.Actions[s] {
		out = append(out, t)
	}
	sort.Strings(out)
	return out
}

// DrvResult is what the reference driver did on one token sequence.
type DrvResult struct {
	Accept   bool
	ErrAt    int      // index of the offending token (len(toks) = EOF), -1 if accepted
	Expected []string // terminals with an action in the state where it stopped
	Reduces  []int    // production numbers in order
	// ReduceAfterScan: number of reductions performed with the offending token as look-ahead
	ReducesOnOffending int
	Loop               bool
	MaxDepth           int    // deepest stack reached
	Bad                string // table inconsistency (missing goto, bad production)
	Steps              []string
}

// Drive runs the shift/reduce loop of tab over toks (EOF appended).
func Drive(c *CFG, tab Table, toks []string, trace bool) *DrvResult {
	res := &DrvResult{ErrAt: -1}
	stack := []int{0}
	i := 0
	redSinceShift := 0
	for steps := 0; ; steps++ {
		if steps > 100000 {
			res.Loop = true
			return res
		}
		la := EOF
		if i < len(toks) {
			la = toks[i]
		}
		a, ok := tab.Action(stack[len(stack)-1], la)
		if !ok {
			res.ErrAt = i
			res.Expected = tab.Row(stack[len(stack)-1])
			res.ReducesOnOffending = redSinceShift
			return res
		}
		switch a.Kind {
		case 'a':
			res.Accept = true
			return res
		case 's':
			stack = append(stack, a.N)
			if len(stack) > res.MaxDepth {
				res.MaxDepth = len(stack)
			}
			i++
			redSinceShift = 0
			if trace {
				res.Steps = append(res.Steps, "shift")
			}
		case 'r':
			if a.N <= 0 || a.N >= len(c.Prods) {
				res.Bad = fmt.Sprintf("reduce by production %d which does not exist", a.N)
				return res
			}
			p := c.Prods[a.N]
			if len(p.Body) > len(stack)-1 {
				res.Bad = fmt.Sprintf("reduce %d pops below the stack bottom", a.N)
				return res
			}
			stack = stack[:len(stack)-len(p.Body)]
			g, ok := tab.Goto(stack[len(stack)-1], p.Head)
			if !ok || g < 0 {
				res.Bad = fmt.Sprintf("no goto from state %d on %s", stack[len(stack)-1], p.Head)
				return res
			}
			stack = append(stack, g)
			res.Reduces = append(res.Reduces, a.N)
			redSinceShift++
			if trace {
				res.Steps = append(res.Steps, fmt.Sprintf("reduce %d", a.N))
			}
		}
	}
}
