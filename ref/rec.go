package ref

import (
	"fmt"
	"strings"
)

// R-rec: the reference recovery machine, a literal transcription of C07 on top of the plain shift/reduce loop.

// RecResult is what the reference machine did on one token sequence.
type RecResult struct {
	OK         bool
	Value      string   // rendering of the result attribute (when OK)
	Scans      int      // number of tokens obtained from the scanner
	Calls      []string // action calls in order: N<alt>(args)
	Recoveries int
	Loop       bool
	Bad        string
}

// Recover runs the table tab (with "error" as an ordinary terminal column) over toks.
// Attributes are rendered as strings: t<i> for the i-th token, N<alt>(...) for an action result,
// E(t<i>;popped...) for an error attribute, nil for the initial stack cell.
func Recover(c *CFG, tab Table, toks []string) *RecResult {
	res := &RecResult{Scans: 1}
	tokAt := func(i int) string {
		if i < len(toks) {
			return toks[i]
		}
		return EOF
	}
	st := []int{0}
	at := []string{"nil"}
	i := 0
	for steps := 0; ; steps++ {
		if steps > 100000 {
			res.Loop = true
			return res
		}
		a, ok := tab.Action(st[len(st)-1], tokAt(i))
		if !ok {
			// the topmost state that can shift the error symbol
			j := len(st) - 1
			var sh Act
			for ; j >= 0; j-- {
				if x, ok := tab.Action(st[j], "error"); ok && x.Kind == 's' {
					sh = x
					break
				}
			}
			if j < 0 {
				return res // no state on the stack can shift error: return the error
			}
			popped := append([]string(nil), at[j+1:]...)
			st, at = st[:j+1], at[:j+1]
			st = append(st, sh.N)
			at = append(at, fmt.Sprintf("E(t%d;%s)", i, strings.Join(popped, ",")))
			res.Recoveries++
			// skip input, starting with the offending token, up to the first token acceptable here
			for {
				if _, ok := tab.Action(st[len(st)-1], tokAt(i)); ok {
					break
				}
				if tokAt(i) == EOF {
					return res // the input ended first
				}
				i++
				res.Scans++
			}
			continue
		}
		switch a.Kind {
		case 'a':
			res.OK = true
			res.Value = at[len(at)-1]
			return res
		case 's':
			st = append(st, a.N)
			at = append(at, fmt.Sprintf("t%d", i))
			i++
			res.Scans++
		case 'r':
			if a.N <= 0 || a.N >= len(c.Prods) {
				res.Bad = "bad production"
				return res
			}
			p := c.Prods[a.N]
			n := len(p.Body)
			if n > len(st)-1 {
				res.Bad = "reduce pops below the stack bottom"
				return res
			}
			args := append([]string(nil), at[len(at)-n:]...)
			st, at = st[:len(st)-n], at[:len(at)-n]
			g, ok := tab.Goto(st[len(st)-1], p.Head)
			if !ok {
				res.Bad = "no goto"
				return res
			}
			v := fmt.Sprintf("N%d(%s)", p.Alt, strings.Join(args, ","))
			res.Calls = append(res.Calls, v)
			st = append(st, g)
			at = append(at, v)
		}
	}
}
