// Package ref holds the reference models: boring, direct transcriptions of the property statements.
package ref

import (
	"fmt"
	"sort"
	"strings"
	"unicode/utf8"

	"verif/gram"
)

// ---------------------------------------------------------------------------------------------
// R-lex: position (Glushkov) automaton of the lexical part, regular definitions expanded as macros,
// '.' as fallback ("matches only a character that no more specific alternative at that point matches").

type leaf struct {
	k      byte // 'l' literal, 'r' range, 'd' dot
	lo, hi rune
}

// LexPat describes one token / ignored-token pattern of the reference.
type LexPat struct {
	Name     string
	Ignore   bool
	StrLit   bool // string literal of the syntax part: wins over every named pattern
	Index    int  // declaration index among all lexical productions (string literals after all of them)
	first    []int
	last     []int
	Nullable bool
}

type LexRef struct {
	leaves []leaf
	follow [][]int
	Pats   []LexPat
	lastOf map[int][]int
	Bounds []rune // sorted cut points; class k = [Bounds[k], Bounds[k+1]-1], the last class ends at MaxRune
	states []*LState
	index  map[string]int
}

// Verdict of a state: what the text read so far matches.
type Verdict struct {
	Kind byte // 'n' nothing, 'a' token, 'i' ignored
	Name string
}

type LState struct {
	Set  []int
	Done []int // patterns completed by the last rune
	V    Verdict
	next []int // per class: -2 unknown, -1 dead
}

type errRecursive struct{ name string }

func (e errRecursive) Error() string { return "recursive regular definition " + e.name }

// NewLexRef builds the reference for the lexical productions defs (declaration order) plus the string
// literals of the syntax part (in order of first use). Returns an error for recursive or undefined
// regular definitions (such grammars are outside the families).
func NewLexRef(defs []gram.LexDef, strLits []string) (lr *LexRef, err error) {
	lr = &LexRef{lastOf: map[int][]int{}, index: map[string]int{}}
	regs := map[string]*gram.Pat{}
	for _, d := range defs {
		if d.Kind == "reg" {
			regs[d.Name] = d.P
		}
	}
	defer func() {
		if r := recover(); r != nil {
			if e, ok := r.(error); ok {
				lr, err = nil, e
				return
			}
			panic(r)
		}
	}()
	var build func(p *gram.Pat, depth int) (bool, []int, []int)
	build = func(p *gram.Pat, depth int) (nullable bool, first, last []int) {
		if depth > 40 {
			panic(errRecursive{p.Name})
		}
		switch p.K {
		case "lit":
			q := lr.newLeaf(leaf{'l', p.R, p.R})
			return false, []int{q}, []int{q}
		case "rng":
			q := lr.newLeaf(leaf{'r', p.R, p.Hi})
			return false, []int{q}, []int{q}
		case "dot":
			q := lr.newLeaf(leaf{'d', 0, 0})
			return false, []int{q}, []int{q}
		case "ref":
			rp, ok := regs[p.Name]
			if !ok {
				panic(fmt.Errorf("undefined regular definition %s", p.Name))
			}
			return build(rp, depth+1)
		case "grp":
			return build(p.Sub[0], depth)
		case "opt":
			_, f, l := build(p.Sub[0], depth)
			return true, f, l
		case "rep":
			_, f, l := build(p.Sub[0], depth)
			for _, q := range l {
				lr.follow[q] = union(lr.follow[q], f)
			}
			return true, f, l
		case "alt":
			for _, x := range p.Sub {
				n, f, l := build(x, depth)
				nullable = nullable || n
				first = union(first, f)
				last = union(last, l)
			}
			return
		case "seq":
			nullable = true
			for _, x := range p.Sub {
				n, f, l := build(x, depth)
				for _, q := range last {
					lr.follow[q] = union(lr.follow[q], f)
				}
				if nullable {
					first = union(first, f)
				}
				if n {
					last = union(last, l)
				} else {
					last = l
				}
				nullable = nullable && n
			}
			return
		}
		panic("bad pattern kind " + p.K)
	}
	for idx, d := range defs {
		if d.Kind == "reg" {
			continue
		}
		n, f, l := build(d.P, 0)
		lr.Pats = append(lr.Pats, LexPat{Name: strings.TrimPrefix(d.Name, "!"), Ignore: d.Kind == "ign", Index: idx, first: f, last: l, Nullable: n})
		if d.Kind == "ign" {
			lr.Pats[len(lr.Pats)-1].Name = d.Name
		}
	}
	for i, s := range strLits {
		n, f, l := build(gram.Str(s), 0)
		lr.Pats = append(lr.Pats, LexPat{Name: s, StrLit: true, Index: len(defs) + i, first: f, last: l, Nullable: n})
	}
	for pi, p := range lr.Pats {
		for _, q := range p.last {
			lr.lastOf[q] = append(lr.lastOf[q], pi)
		}
	}
	// cut points
	cuts := map[rune]bool{0: true}
	for _, lf := range lr.leaves {
		if lf.k != 'd' {
			cuts[lf.lo] = true
			if lf.hi < utf8.MaxRune {
				cuts[lf.hi+1] = true
			}
		}
	}
	for c := range cuts {
		if c >= 0 && c <= utf8.MaxRune {
			lr.Bounds = append(lr.Bounds, c)
		}
	}
	sort.Slice(lr.Bounds, func(i, j int) bool { return lr.Bounds[i] < lr.Bounds[j] })
	var init []int
	for _, p := range lr.Pats {
		init = union(init, p.first)
	}
	lr.intern(init, nil)
	return lr, nil
}

func (lr *LexRef) newLeaf(l leaf) int {
	lr.leaves = append(lr.leaves, l)
	lr.follow = append(lr.follow, nil)
	return len(lr.leaves) - 1
}

func union(a, b []int) []int {
	if len(b) == 0 {
		return a
	}
	m := map[int]bool{}
	for _, x := range a {
		m[x] = true
	}
	for _, x := range b {
		m[x] = true
	}
	out := make([]int, 0, len(m))
	for x := range m {
		out = append(out, x)
	}
	sort.Ints(out)
	return out
}

func (lr *LexRef) intern(set, done []int) int {
	k := fmt.Sprint(set, "|", done)
	if i, ok := lr.index[k]; ok {
		return i
	}
	st := &LState{Set: set, Done: done, next: make([]int, len(lr.Bounds))}
	for i := range st.next {
		st.next[i] = -2
	}
	st.V = lr.winner(done)
	lr.states = append(lr.states, st)
	lr.index[k] = len(lr.states) - 1
	return len(lr.states) - 1
}

// winner: a syntax-part string literal if one completed, else the completed pattern declared first.
func (lr *LexRef) winner(done []int) Verdict {
	if len(done) == 0 {
		return Verdict{Kind: 'n'}
	}
	best := -1
	for _, pi := range done {
		p := &lr.Pats[pi]
		if p.StrLit {
			if best < 0 || !lr.Pats[best].StrLit || p.Index < lr.Pats[best].Index {
				best = pi
			}
			continue
		}
		if best < 0 || (!lr.Pats[best].StrLit && p.Index < lr.Pats[best].Index) {
			best = pi
		}
	}
	p := &lr.Pats[best]
	if p.Ignore {
		return Verdict{'i', p.Name}
	}
	return Verdict{'a', p.Name}
}

// Init is the initial state. NumStates grows as states are discovered.
func (lr *LexRef) Init() int           { return 0 }
func (lr *LexRef) State(i int) *LState { return lr.states[i] }
func (lr *LexRef) NumStates() int      { return len(lr.states) }

func (lr *LexRef) class(r rune) int {
	// largest k with Bounds[k] <= r
	return sort.Search(len(lr.Bounds), func(i int) bool { return lr.Bounds[i] > r }) - 1
}

// Step returns the successor of state s on rune r, or -1 when no lexeme has the extended text as a prefix.
func (lr *LexRef) Step(s int, r rune) int {
	if r < 0 || r > utf8.MaxRune {
		return -1
	}
	c := lr.class(r)
	st := lr.states[s]
	if n := st.next[c]; n != -2 {
		return n
	}
	var e []int
	for _, q := range st.Set {
		lf := lr.leaves[q]
		if lf.k != 'd' && lf.lo <= r && r <= lf.hi {
			e = append(e, q)
		}
	}
	if len(e) == 0 {
		for _, q := range st.Set {
			if lr.leaves[q].k == 'd' {
				e = append(e, q)
			}
		}
	}
	n := -1
	if len(e) > 0 {
		var nxt, done []int
		for _, q := range e {
			nxt = union(nxt, lr.follow[q])
			done = union(done, lr.lastOf[q])
		}
		n = lr.intern(nxt, done)
		st = lr.states[s]
	}
	st.next[c] = n
	return n
}

// ---------------------------------------------------------------------------------------------
// R-tok: reference tokenizer, a transcription of C01 and C08.

type Tok struct {
	Type   string // token name, "INVALID" or "EOF"
	Lit    string
	Offset int
	Line   int
	Column int
}

type TokState struct {
	Pos, Line, Col int
}

func NewTokState() *TokState { return &TokState{0, 1, 1} }

func (ts *TokState) advance(r rune, size int) {
	ts.Pos += size
	switch r {
	case '\n':
		ts.Line++
		ts.Col = 1
	case '\r':
		ts.Col = 1
	case '\t':
		ts.Col += 4
	default:
		ts.Col++
	}
}

// Scan returns the next token of src according to the statements of C01/C08.
func (lr *LexRef) Scan(src []byte, ts *TokState) Tok {
	start := *ts
	s := lr.Init()
	verdict := "INVALID"
	for {
		if ts.Pos >= len(src) {
			if ts.Pos == start.Pos {
				return Tok{"EOF", "", ts.Pos, ts.Line, ts.Col}
			}
			return Tok{verdict, string(src[start.Pos:ts.Pos]), start.Pos, start.Line, start.Col}
		}
		r, size := utf8.DecodeRune(src[ts.Pos:])
		n := lr.Step(s, r)
		if n < 0 {
			if verdict == "INVALID" {
				// unmatchable text: one INVALID token that also consumes the rune which made it unmatchable
				ts.advance(r, size)
			}
			return Tok{verdict, string(src[start.Pos:ts.Pos]), start.Pos, start.Line, start.Col}
		}
		ts.advance(r, size)
		s = n
		switch v := lr.states[s].V; v.Kind {
		case 'i':
			// ignored text is skipped as soon as it is complete
			start = *ts
			s = lr.Init()
			verdict = "INVALID"
		case 'a':
			verdict = v.Name
		default:
			verdict = "INVALID"
		}
	}
}

// ScanAll tokenizes src to the end and adds extra EOF calls.
func (lr *LexRef) ScanAll(src []byte, extraEOF int) []Tok {
	ts := NewTokState()
	var out []Tok
	for {
		t := lr.Scan(src, ts)
		out = append(out, t)
		if t.Type == "EOF" {
			break
		}
	}
	for i := 0; i < extraEOF; i++ {
		out = append(out, lr.Scan(src, ts))
	}
	return out
}

// ClassUsed reports whether class k (of Bounds) is matched by some literal or range of the grammar (as opposed to
// runes only '.' or nothing can match).
func (lr *LexRef) ClassUsed(k int) bool {
	r := lr.Bounds[k]
	for _, lf := range lr.leaves {
		if lf.k != 'd' && lf.lo <= r && r <= lf.hi {
			return true
		}
	}
	return false
}
