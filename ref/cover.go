package ref

// CoverSentences returns, for every production that can occur in a derivation of a sentence without error
// alternatives, one shortest sentence whose derivation uses it (production coverage). These complement the
// exhaustive enumeration up to a length bound: a long body (12 symbols) is never reached by sequences of length 7.
func (c *CFG) CoverSentences() [][]string {
	const inf = 1 << 30
	minLen := map[string]int{}
	minProd := map[string]int{}
	for n := range c.NT {
		minLen[n] = inf
	}
	cost := func(p Prod) int {
		if p.Err {
			return inf
		}
		n := 0
		for _, s := range p.Body {
			if c.NT[s] {
				if minLen[s] >= inf {
					return inf
				}
				n += minLen[s]
			} else {
				n++
			}
		}
		return n
	}
	for ch := true; ch; {
		ch = false
		for i, p := range c.Prods {
			if k := cost(p); k < minLen[p.Head] {
				minLen[p.Head], minProd[p.Head] = k, i
				ch = true
			}
		}
	}
	var expand func(sym string, depth int) []string
	expand = func(sym string, depth int) []string {
		if !c.NT[sym] {
			return []string{sym}
		}
		if minLen[sym] >= inf || depth > 200 {
			return nil
		}
		var out []string
		for _, s := range c.Prods[minProd[sym]].Body {
			out = append(out, expand(s, depth+1)...)
		}
		return out
	}
	// shortest context (prefix, suffix) in which each non-terminal can appear, starting from S'
	type ctx struct{ pre, suf []string }
	ctxOf := map[string]*ctx{"S'": {}}
	for ch := true; ch; {
		ch = false
		for _, p := range c.Prods {
			cx, ok := ctxOf[p.Head]
			if !ok || p.Err || cost(p) >= inf {
				continue
			}
			for i, s := range p.Body {
				if !c.NT[s] {
					continue
				}
				pre := append([]string(nil), cx.pre...)
				for _, x := range p.Body[:i] {
					pre = append(pre, expand(x, 0)...)
				}
				var suf []string
				for _, x := range p.Body[i+1:] {
					suf = append(suf, expand(x, 0)...)
				}
				suf = append(suf, cx.suf...)
				if old, ok := ctxOf[s]; !ok || len(pre)+len(suf) < len(old.pre)+len(old.suf) {
					ctxOf[s] = &ctx{pre, suf}
					ch = true
				}
			}
		}
	}
	seen := map[string]bool{}
	var out [][]string
	for i, p := range c.Prods {
		cx, ok := ctxOf[p.Head]
		if i == 0 || !ok || cost(p) >= inf {
			continue
		}
		sent := append([]string(nil), cx.pre...)
		for _, s := range p.Body {
			sent = append(sent, expand(s, 0)...)
		}
		sent = append(sent, cx.suf...)
		k := ""
		for _, t := range sent {
			k += t + "\x00"
		}
		if !seen[k] && len(sent) <= 64 {
			seen[k] = true
			out = append(out, sent)
		}
	}
	return out
}
