package ref

// CoverSentences returns, for every production that can occur in a derivation of a sentence without error
// alternatives, one shortest sentence whose derivation uses it (production coverage). These complement the
// exhaustive enumeration up to a length bound: a long body (12 symbols) is never reached by sequences of length 7.
func (c *CFG) CoverSentences() [][]string {
	const inf = 1 << 30
	minLen := map[string]int{}
	minProd := map[string]int{}
	for n := range c.NT {
		minLen[n] = inf
	}
	cost := func(p Prod) int {
		if p.Err {
			return inf
		}
		n := 0
		for _, s := range p.Body {
			if c.NT[s] {
				if minLen[s] >= inf {
					return inf
				}
				n += minLen[s]
			} else {
				n++
			}
		}
		return n
	}
	for ch := true; ch; {
		ch = false
		for i, p := range c.Prods {
			if k := cost(p); k < minLen[p.Head] {
				minLen[p.Head], minProd[p.Head] = k, i
				ch = true
			}
		}
	}
	var expand func(sym string, depth int) []string
	expand = func(sym string, depth int) []string {
		if !c.NT[sym] {
			return []string{sym}
		}
		if minLen[sym] >= inf || depth > 200 {
			return nil
		}
		var out []string
		for _, s := range c.Prods[minProd[sym]].Body {
			out = append(out, expand(s, depth+1)...)
		}
		return out
	}
	// shortest context (prefix, suffix) in which each non-terminal can appear, starting from S'
	type ctx struct{ pre, suf []string }
	ctxOf := map[string]*ctx{"S'": {}}
	for ch := true; ch; {
		ch = false
		for _, p := range c.Prods {
			cx, ok := ctxOf[p.Head]
			if !ok || p.Err || cost(p) >= inf {
				continue
			}
			for i, s := range p.Body {
				if !c.NT[s] {
					continue
				}
				pre := append([]string(nil), cx.pre...)
				for _, x := range p.Body[:i] {
					pre = append(pre, expand(x, 0)...)
				}
				var suf []string
				for _, x := range p.Body[i+1:] {
					suf = append(suf, expand(x, 0)...)
				}
				suf = append(suf, cx.suf...)
				if old, ok := ctxOf[s]; !ok || len(pre)+len(suf) < len(old.pre)+len(old.suf) {
					ctxOf[s] = &ctx{pre, suf}
					ch = true
				}
			}
		}
	}
	seen := map[string]bool{}
	var out [][]string
	for i, p := range c.Prods {
		cx, ok := ctxOf[p.Head]
		if i == 0 || !ok || cost(p) >= inf {
			continue
		}
		sent := append([]string(nil), cx.pre...)
		for _, s := range p.Body {
			sent = append(sent, expand(s, 0)...)
		}
		sent = append(sent, cx.suf...)
		k := ""
		for _, t := range sent {
			k += t + "\x00"
		}
		if !seen[k] && len(sent) <= 64 {
			seen[k] = true
			out = append(out, sent)
		}
	}
	return out
}

// LongSentence returns a sentence of at least target tokens obtained by pumping a recursive production (leftmost
// expansion that prefers, while short of the target, the production of the non-terminal that leads back to a
// recursion), or nil if the language is finite or only error alternatives recurse. Deep nesting / long right
// recursions push the parser stack far beyond its initial capacity.
func (c *CFG) LongSentence(target int) []string { return c.longSentence(target, false) }

// DeepSentence is LongSentence pumping, where there is one, a production whose recursive symbol follows a non-empty
// prefix (nesting or right recursion): each round then leaves symbols on the LR stack, which grows with the input.
func (c *CFG) DeepSentence(target int) []string { return c.longSentence(target, true) }

func (c *CFG) longSentence(target int, deep bool) []string {
	const inf = 1 << 30
	minLen := map[string]int{}
	for n := range c.NT {
		minLen[n] = inf
	}
	cost := func(p Prod) int {
		if p.Err {
			return inf
		}
		n := 0
		for _, s := range p.Body {
			if c.NT[s] {
				if minLen[s] >= inf {
					return inf
				}
				n += minLen[s]
			} else {
				n++
			}
		}
		return n
	}
	minProd := map[string]int{}
	for ch := true; ch; {
		ch = false
		for i, p := range c.Prods {
			if k := cost(p); k < minLen[p.Head] {
				minLen[p.Head], minProd[p.Head] = k, i
				ch = true
			}
		}
	}
	// reach[A][B]: B occurs in some sentential form derived from A using productive, error-free productions
	reach := map[string]map[string]bool{}
	for n := range c.NT {
		reach[n] = map[string]bool{}
	}
	for ch := true; ch; {
		ch = false
		for _, p := range c.Prods {
			if cost(p) >= inf {
				continue
			}
			for _, s := range p.Body {
				if !c.NT[s] {
					continue
				}
				if !reach[p.Head][s] {
					reach[p.Head][s] = true
					ch = true
				}
				for x := range reach[s] {
					if !reach[p.Head][x] {
						reach[p.Head][x] = true
						ch = true
					}
				}
			}
		}
	}
	// growing production of A: A -> ... B ... with B reaching A and at least one more symbol (so each round adds tokens)
	grow := map[string]int{}
	growPrefix := map[string]int{}
	for i, p := range c.Prods {
		if cost(p) >= inf || p.Head == "S'" {
			continue
		}
		prefix := 0
		for _, s := range p.Body {
			if c.NT[s] && (s == p.Head || reach[s][p.Head]) && cost(p) > minLen[s] {
				if _, ok := grow[p.Head]; !ok || (deep && prefix > 0 && growPrefix[p.Head] == 0) {
					grow[p.Head] = i
					growPrefix[p.Head] = prefix
				}
			}
			if c.NT[s] {
				prefix += minLen[s]
			} else {
				prefix++
			}
		}
	}
	if len(c.Prods) == 0 || minLen["S'"] >= inf {
		return nil
	}
	var out []string
	stack := []string{"S'"}
	pumped := false
	for steps := 0; len(stack) > 0 && steps < 200000; steps++ {
		sym := stack[len(stack)-1]
		stack = stack[:len(stack)-1]
		if !c.NT[sym] {
			out = append(out, sym)
			continue
		}
		pi := minProd[sym]
		if len(out)+len(stack) < target {
			if g, ok := grow[sym]; ok {
				pi = g
				pumped = true
			} else {
				// head towards a non-terminal that can grow
				for i, p := range c.Prods {
					if p.Head != sym || cost(p) >= inf {
						continue
					}
					ok := false
					for _, s := range p.Body {
						if c.NT[s] {
							if _, g := grow[s]; g {
								ok = true
							}
							for x := range reach[s] {
								if _, g := grow[x]; g {
									ok = true
								}
							}
						}
					}
					if ok {
						pi = i
						break
					}
				}
			}
		}
		b := c.Prods[pi].Body
		for i := len(b) - 1; i >= 0; i-- {
			stack = append(stack, b[i])
		}
	}
	if !pumped || len(stack) > 0 || len(out) < target {
		return nil
	}
	return out
}
