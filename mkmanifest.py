#!/usr/bin/env python3
"""Regenerates MANIFEST.json from the table below (kept in one place so the file is always valid)."""
import json, sys

CHECKS = {
 "C18": dict(cat="model_checking", tech="explicit-state BFS to closure over the real DisjunctRangeSet (in-process, overlay build)",
   text="Every sequence of AddRange calls of any length over an 8-point (thorough: 11-point) rune universe is covered because the reachable state space (all lists of disjoint intervals) is finite and explored to closure; on every transition the partition invariants of the statement are evaluated on the real object.",
   note="Scale-freeness of AddRange (only order comparisons and +/-1) is what extends the result from the small universe to all runes; Go toolchain trusted.", ref="6 C18"),
 "C20": dict(cat="exploration", tech="complete enumeration of the valid rune-literal space against strconv (in-process + emitted code compiled)",
   text="The input space (every scalar value in every spelling Go allows) is finite and enumerated completely, for both the generator's own reader and the emitted util package compiled from a real gocc run; decimal literals up to length 4 plus 64-bit boundary neighbourhoods.",
   note="strconv.UnquoteChar/ParseInt/ParseUint are the oracle; decimal literals longer than the bound are covered only at the boundaries.", ref="6 C20"),
}
CHECKS.update({
 "C01": dict(cat="model_checking", tech="product automaton (emitted DFA x reference position automaton) explored to closure per grammar of an enumerated family + exhaustive byte strings on compiled lexers",
   text="For each of several thousand enumerated lexical grammars the complete reachable product of the emitted DFA (read back from the files the real generator wrote) with an independently built reference automaton is explored to a fixed point, which decides agreement for rune strings of every length; a selection of the same grammars is compiled unmodified and driven with every byte string up to a bound (including ill-formed UTF-8) against a reference tokenizer that transcribes the statement; one witness per product state is replayed on the compiled code.",
   note="Reference models (position automaton with macro-expanded regular definitions, '.' as fallback; tokenizer) are transcriptions of the statement; table reader is bound to the compiled tables by probing TransTab/ActTab; grammars outside the enumerated families are not covered.", ref="6 C01"),
 "C08": dict(cat="exploration", tech="exhaustive byte strings up to a bound on compiled unmodified lexers against a reference tokenizer (positions, literals, tiling)",
   text="Every byte string up to the bound over an alphabet that always contains newline, tab, a multi-byte rune and ill-formed bytes is scanned by compiled unmodified lexers of a grammar selection; offset, line, column and literal of every token (INVALID, EOF and post-EOF calls included) must equal the reference tokenizer's, which implies tiling.",
   note="Positions are compared for a selection of lexers (distinct emitted tables); longer inputs than the bound are covered only through product-state witnesses.", ref="6 C08"),
})
CHECKS.update({
 "C02": dict(cat="model_checking", tech="product automaton (emitted LR tables x independently built canonical LR(1)) to closure + exhaustive token sequences against Earley, on read-back tables and compiled parsers",
   text="For every enumerated grammar that gocc reports conflict-free the emitted action/goto/production tables, read back from the generated files, are (i) driven over every token sequence up to the bound and compared with an Earley recogniser and (ii) matched against an independently constructed canonical LR(1) automaton by product exploration to closure, which extends the verdict to sequences of every length; a selection is compiled unmodified and its real Parse is driven with every sequence through a scripted Scanner (termination by scan budget).",
   note="Grammar size bounded by the families; Earley/LR(1) references are textbook constructions cross-validated against each other; table reader bound to the compiled tables (VerifTables export).", ref="6 C02"),
 "C04": dict(cat="model_checking", tech="classification of every grammar of an enumerated family by an independently built canonical LR(1) automaton vs the real generator's exit status and conflict report, with and without -a",
   text="Every grammar of the family is run through the real generator in both modes; the reference canonical LR(1) automaton (all states and transitions built and counted) decides whether some terminal admits two actions and whether accept is involved; disagreements are confirmed on the grammar (Earley agreement of the reference table / the competing cell) before being reported.",
   note="Reading: an accept/reduce conflict is announced by gocc's refusal message (it aborts before the count line). Grammar size bounded by the families.", ref="6 C04"),
 "C05": dict(cat="model_checking", tech="product automaton (-a tables x canonical LR(1) resolved by shift-then-lowest-production) to closure + compiled parsers on exhaustive token sequences (verdict and reduction sequence)",
   text="For every conflicting grammar of the families and every permutation of the alternatives of the small ones, the table emitted with -a is compared cell by cell with the canonical LR(1) automaton resolved by the stated rule through product exploration to closure (all sequences, all lengths); a selection is compiled and its verdict and reduction sequence compared on every token sequence up to the bound.",
   note="Grammar size bounded by the families; rows with three competing actions are forced by seeds.", ref="6 C05"),
 "C06": dict(cat="model_checking", tech="exhaustive non-sentences up to a bound on read-back tables and compiled parsers against Earley viable-prefix/continuation sets, extended to all lengths by the canonical-LR(1) product",
   text="On every non-sentence up to the bound the table-driven parser must stop at the first token that makes the prefix non-viable, without any reduction on that look-ahead, and offer exactly the Earley continuation set; compiled parsers must return that very token object (pointer identity), that expected set, and run no action or scan afterwards. Product closure with canonical LR(1) carries the result to all lengths.",
   note="Quantifier restricted as in the statement (conflict-free, error-free, productive).", ref="6 C06"),
})
CHECKS.update({
 "C03": dict(cat="exploration", tech="exhaustive sentences up to a bound x action assignments x context values x every failing action occurrence, on compiled unmodified parsers against post-order evaluation",
   text="Compiled parsers of conflict-free grammars under four action assignments are run on every sentence up to the bound; the recorded action calls (alternative, arguments, token pointer identity, context value) and the result must equal the post-order evaluation of the parse tree; for every sentence every choice of the failing action occurrence is enumerated.",
   note="Action texts come from a fixed menu built on one recording function; arbitrary Go action text is C09's subject.", ref="6 C03"),
 "C07": dict(cat="exploration", tech="exhaustive token sequences up to a bound on compiled unmodified parsers against a literal reference recovery machine; inertness against the twin grammar",
   text="Every token sequence up to the bound (valid, singly and multiply erroneous) is parsed by compiled parsers of conflict-free grammars with error alternatives under recover() and a scan budget and compared with a transcription of the recovery rule: verdict, action calls including the error attribute's offending token and discarded attributes by identity, result, tokens consumed; sentences of the twin grammar must parse exactly as without error alternatives.",
   note="ExpectedTokens inside the attribute and the shape of the finally returned error are not compared (not fixed by the statement).", ref="6 C07"),
})
CHECKS.update({
 "C16": dict(cat="exploration", tech="exhaustive call histories (ordered pairs/triples of inputs, injected action failures; Scan-count x Reset for lexers) on one object vs a fresh object, compiled unmodified code",
   text="All histories up to the bound are enumerated on one parser/lexer object and the last call is compared, field by field, with a freshly created object: a differential oracle with no hand-written expectation.",
   note="History length 2 (thorough 3); inputs up to length 3 (4).", ref="6 C16"),
 "C17": dict(cat="exploration", tech="stateless exploration of goroutine interleavings under a hand-written cooperative scheduler (all schedules for short inputs, preemption bound 2 beyond) + separate free-running -race pass",
   text="Two (thorough: three) goroutines with their own generated parser/lexer objects are run under a controlled scheduler that owns every hand-off between Scan calls and actions; every schedule within the stated bound is executed on the real compiled code and each goroutine's observation compared with its sequential run; unsynchronised accesses inside a step are caught by running the same bodies free under the race detector.",
   note="Yield points are the parser's call-backs; the race pass is the guidance's separate detector run, not an enumeration.", ref="6 C17"),
})
CHECKS.update({
 "C15": dict(cat="model_checking", tech="product of the shipped front-end LR tables with the canonical LR(1) automaton of spec/gocc2.ebnf to closure (in-process) + the real front-end Parse on exhaustive token sequences against Earley",
   text="The shipped ActionTable/GotoTable/ProductionsTable are matched state by state against the canonical LR(1) automaton built from spec/gocc2.ebnf by an independent reader; the product closes, so language and reduction correspondence hold for all token sequences as far as the tables go; the real Parse (whose recovery code is not in the tables) is driven with every token sequence up to length 5 (thorough 6) and every sequence with a viable prefix up to length 8 (10).",
   note="Semantic actions are replaced by logging stubs (acceptance is the parser's syntactic verdict); one known finding (empty-alternative pseudo recovery) is attributed by a decidable rule.", ref="6 C15"),
})
CHECKS.update({
 "C13": dict(cat="exploration", tech="exhaustive deviation-1 (thorough: deviation-2) respellings of seed grammars through the real generator, byte identity of all output",
   text="Starting from the canonical spelling, every single departure (each gap x each filler incl. comments and CRLF, each character literal x each escape form of the same code point, each string literal x the other quoting) is generated and run; all emitted bytes, exit status and stdout must be identical - a differential oracle without expected values.",
   note="Seeds are hand-written grammars covering every production of spec/gocc2.ebnf; the printer/tokenizer of the harness is independent of gocc's scanner.", ref="6 C13"),
 "C19": dict(cat="exploration", tech="exhaustive fence placements x prose menu for seed grammars: gocc x.md vs gocc x.bnf byte identity; planted illegal characters for diagnostic positions",
   text="Every subset of production boundaries is used as fence positions, with every prose choice of a menu; the markdown run must equal the run on the concatenated code; an illegal character planted at every token position must be reported at the line:column it has in the markdown file.",
   note="Fences are whole lines of three back-quotes and never fall inside a token (a multi-line << >> literal stays in one block).", ref="6 C19"),
})
CHECKS.update({
 "C09": dict(cat="exploration", tech="exhaustive enumeration of pattern shapes, flag subsets x output forms, hostile spellings, all single-token and single-byte mutants of seeds through the real generator under a watchdog; file-set rule; go build of distinct outputs",
   text="Every run of the enumerated input/flag space must terminate within the watchdog horizon; every exit-0 run must have written exactly the packages the configuration calls for, non-empty; a deterministic selection of distinct outputs with valid header/actions is compiled by the Go toolchain.",
   note="Non-termination is only observable as exceeding 600x the normal running time; inputs are the enumerated mutants, not all byte strings; compile step covers a budgeted selection (reported).", ref="6 C09"),
 "C14": dict(cat="exploration", tech="exhaustive single-edit token mutants (token kinds, stray characters incl. white-space look-alikes, malformed literals and identifiers), reference renamings and definition duplications of seed grammars; ill-formedness decided by Earley over spec/gocc2.ebnf + symbol-table rules; real generator must exit non-zero",
   text="The harness knows the token sequence of every mutant it prints, so an independent Earley recogniser over the documented grammar plus three symbol-table rules decide ill-formedness without gocc's front end; every ill-formed mutant must be refused.",
   note="One-directional (ill-formed => non-zero exit).", ref="6 C14"),
})
CHECKS.update({
 "C10": dict(cat="exploration", tech="enumerated hostile terminal spellings x generation modes: read-back token map bijection rules; compiled token packages: exhaustive lookups over all numbers, all terminal names and an unknown-name menu, and every sequence of three lookups over known and unknown names (history-freedom); lexeme scan of every string-literal terminal",
   text="For every grammar of a corpus built around hostile terminal spellings, in default, -no_lexer and -zip mode, the emitted token map is checked to be a bijection over exactly the grammar's terminals (derived independently from the harness's own tokenization) with INVALID 0 and end-of-input 1; the compiled token package is queried exhaustively; lexer and parser tables are bound to the same numbering through the name-addressed products of C01/C02/C05.",
   note="The pseudo symbols empty/error may occupy numbers; two known findings (terminals literally named INVALID / U+241A).", ref="6 C10"),
 "C12": dict(cat="exploration", tech="all valid flag subsets through the generator (file-by-file byte dependence on a single flag) + compiled flag variants: table equality after init() and identical observations on exhaustive inputs",
   text="Byte comparison over all 24 valid subsets establishes that each emitted file depends only on its own flag; the single-flag variants and a combination are then compiled and compared with the plain build: decoded tables cell by cell, every token sequence and byte string up to the bound (results, errors, positions, action calls).",
   note="Debug output on stdout is discarded, not compared.", ref="6 C12"),
})
CHECKS.update({
 "C11": dict(cat="exploration", tech="deviation-bounded enumeration of map-iteration orders: every range-over-map site of gocc (found by go/types, rewritten through go build -overlay) x order policies, plus plain repeated runs; byte identity of all .go output",
   text="gocc's only nondeterminism source (Go's randomised map iteration) is put behind a shim the harness controls; starting from sorted order every single-site departure under four permutation policies (thorough: pairs of sites) is executed for each grammar and flag set and all emitted Go bytes, exit status and conflict count must be unchanged; the uninstrumented binary and the real CLI are run as well (binding + plain repeat).",
   note="A new map range introduced by a change is instrumented automatically because the rewriter works on the working tree; orders outside the policy menu are not covered; other nondeterminism sources are only asserted absent syntactically.", ref="6 C11"),
})
NOT_YET = {}

def main():
    props = [json.loads(l) for l in open('/verif/properties.jsonl')]
    checks, na = [], []
    for p in props:
        i = p['id']
        if i in CHECKS:
            c = CHECKS[i]
            checks.append({
                "property_id": i,
                "quick_cmd": "./vcheck %s quick" % i,
                "thorough_cmd": "./vcheck %s thorough" % i,
                "evidence_file": "/verif/evidence/%s.json" % i,
                "replay_cmd_template": "./vcheck replay {path}",
                "engine": "vcheck",
                "level_claimed": {"category": c["cat"], "text": c["text"], "design_ref": "DESIGN.md section " + c["ref"]},
                "level_note": c["note"],
                "technique": c["tech"],
            })
        else:
            na.append({"property_id": i, "reason": NOT_YET.get(i, "check not built yet in this round (planned: bounded exhaustive exploration, see DESIGN.md section 6); not claimed until its check runs clean")})
    m = {
        "version": 1,
        "setup_cmd": "cd /verif && GOFLAGS=-mod=mod GOPROXY=off GOWORK=off go build -o vcheck ./cmd/vcheck && ./vcheck setup all",
        "hooks": {
            "guard": "verif",
            "enable": "go build -tags verif (no hook is needed: all instrumentation is supplied through go build -overlay/-modfile from /verif, /repo is never written)",
            "baseline_off_cmd": "cd /repo && GOFLAGS=-mod=mod go test -vet=off -count=1 ./...",
            "source_commits": [],
            "add_only": True,
        },
        "engines": [
            {"name": "vcheck", "path": "/verif/cmd/vcheck", "serves_properties": sorted(CHECKS), "kind_free_text": "hand-written bounded exhaustive explorers (explicit-state BFS, product automata, exhaustive input/sequence/schedule enumeration) in Go; builds gocc from /repo's working tree, in-process harness via go build -overlay"},
        ],
        "checks": checks,
        "not_applicable": na,
        "notes": "All checks rebuild gocc from /repo's working tree (cache keyed by a hash of the tree's sources). Exit 0 = held; exit 1 + VIOLATION line = violated; exit 2 = tree does not build; exit 3 = harness inconsistency (never a VIOLATION).",
    }
    json.dump(m, open('/verif/MANIFEST.json', 'w'), indent=1)
    print("checks:", len(checks), "not_applicable:", len(na))

main()
